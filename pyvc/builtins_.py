"""Models of Python builtins, native-container methods and a few stdlib functions (assumed contracts E5/E9)."""
from __future__ import annotations

import z3

from .path import OutOfSubset
from .values import (Sym, SInt, SBool, SStr, SReal, Opaque, SymSeq, VClass, VObj, VFunc, VBound, VPartial, Extern, VGen,
                     Unknown, is_sym, wrap, z3_of)
from . import ops
from .ops import truthy, z_and, z_or, z_not, eq, kind


class MixedSeq:
    """Concatenation of concrete items and symbolic sequences (result of list() over a generator that did `yield from <SymSeq>`)."""

    def __init__(self, parts):
        self.parts = parts  # list of ("item", v) | ("seq", SymSeq)


class DictView:
    def __init__(self, d, which):
        self.d = d
        self.which = which

    def materialize(self):
        if self.which == "keys":
            return list(self.d.keys())
        if self.which == "values":
            return list(self.d.values())
        return [(k, v) for k, v in self.d.items()]


def type_name(v):
    if isinstance(v, VObj):
        return v.cls.name
    if isinstance(v, Opaque):
        return v.cls
    if isinstance(v, Sym):
        return {"SInt": "int", "SBool": "bool", "SStr": "str", "SReal": "float"}[type(v).__name__]
    if isinstance(v, SymSeq):
        return v.kind
    if isinstance(v, VGen):
        return "generator"
    if isinstance(v, VFunc):
        return "function"
    return type(v).__name__


# ------------------------------------------------------------------ core builtins
def len_(it, v):
    if isinstance(v, (set, frozenset)) and any(is_sym(x) for x in v):
        # decided when the path condition makes the members pairwise distinct (e.g. each was added under `if x not in seen`)
        from . import ops as _ops

        members = list(v)
        for i in range(len(members)):
            for j in range(i):
                same = _ops.eq(members[i], members[j])
                if same is True or (same is not False and not it.path.must(z3.Not(same))):
                    raise OutOfSubset("len() of a set with symbolic members (duplicates are not decided)")
        return len(members)
    # (dict keys are kept pairwise distinct by construction: KeyedDict assumes it, stores fork on key equality)
    if isinstance(v, (list, tuple, dict, set, frozenset, str, bytes, range)):
        return len(v)
    if isinstance(v, SStr):
        return wrap(z3.Length(v.z))
    if isinstance(v, SymSeq):
        return wrap(v.n)
    if isinstance(v, DictView):
        return len(v.d)
    if isinstance(v, VObj) and v.cls.find_method("__len__"):
        return it.call(it.getattr(v, "__len__"), [], {})
    if isinstance(v, Opaque):
        # an opaque sized object (bytes handed in from outside ...): its length is an uninterpreted non-negative function of the reference
        n = z3.Function("py:len:" + v.sort, v.z.sort(), z3.IntSort())(v.z)
        it.path.assume(n >= 0)
        return wrap(n)
    raise OutOfSubset(f"len of {v!r}")


def str_(it, v):
    if isinstance(v, str):
        return v
    if isinstance(v, SStr):
        return v
    if isinstance(v, bool) or v is None or isinstance(v, (int, float)):
        return str(v)
    if isinstance(v, SBool):
        return wrap(z3.If(v.z, z3.StringVal("True"), z3.StringVal("False")))
    if isinstance(v, SInt):
        return wrap(z3.If(v.z >= 0, z3.IntToStr(v.z), z3.Concat(z3.StringVal("-"), z3.IntToStr(-v.z))))
    if isinstance(v, VObj):
        if v.cls.find_method("__str__"):
            return it.call(it.getattr(v, "__str__"), [], {})
        if v.cls.is_exception:
            a = v.fields.get("args", ())
            if len(a) == 0:
                return ""
            if len(a) == 1:
                return str_(it, a[0])
        if not v.cls.is_exception and not v.cls.find_method("__repr__"):
            # object.__str__ of a plain object: "<module.Class object at 0x...>" - a text that is no generated datum (the address is not modelled)
            return f"<{v.cls.name} object at 0x0>"
    if isinstance(v, (list, tuple, dict)) and not _has_sym(v):
        return str(v)
    if isinstance(v, list) and all(isinstance(x, (SStr, SInt, SBool, str, int, bool)) or x is None for x in v):
        # str(list) = "[" + ", ".join(repr(x)) + "]"; repr of a symbolic string is an uninterpreted function (quotes / escapes are not modelled)
        parts = []
        for x in v:
            if isinstance(x, SStr):
                parts.append(z3.Function("py:repr_str", z3.StringSort(), z3.StringSort())(x.z))
            elif isinstance(x, str):
                parts.append(z3.StringVal(repr(x)))
            else:
                parts.append(z3_of(str_(it, x)))
        out = z3.StringVal("[")
        for i, part in enumerate(parts):
            out = z3.Concat(out, part) if i == 0 else z3.Concat(out, z3.StringVal(", "), part)
        return wrap(z3.Concat(out, z3.StringVal("]")))
    raise OutOfSubset(f"str() of {v!r}")


def _has_sym(v):
    if is_sym(v) or isinstance(v, (VObj, SymSeq, Unknown)):
        return True
    if isinstance(v, (list, tuple, set, frozenset)):
        return any(_has_sym(x) for x in v)
    if isinstance(v, dict):
        return any(_has_sym(x) for x in v.values()) or any(_has_sym(x) for x in v.keys())
    return False


def repr_(it, v):
    if not _has_sym(v) and isinstance(v, (str, int, float, bool, type(None), list, tuple, dict)):
        return repr(v)
    if isinstance(v, VObj):
        # an object whose class (repository or specification stand-in) defines __repr__: that method's result
        nominal = (it.reg.nominal_methods.get(v.cls.name) or it.reg.nominal_methods.get("spec:" + v.cls.name) or {}).get("__repr__")
        if nominal is not None:
            return nominal(it, v, [], {})
        if v.cls.find_method("__repr__"):
            return it.call(it.getattr(v, "__repr__"), [], {})
    raise OutOfSubset(f"repr() of symbolic {v!r}")


def isinstance_(it, v, t):
    from .interp import NativeType, builtin_class

    if isinstance(t, tuple):
        return z_or(*[isinstance_(it, v, x) for x in t])
    if isinstance(v, Unknown):
        raise OutOfSubset(f"isinstance of unknown value ({v.why})")
    if isinstance(t, NativeType):
        k = kind(v)
        if t.name == "object":
            return True
        if t.name == "int":
            return k in ("int", "bool")
        if t.name == "bool":
            return k == "bool"
        if t.name == "str":
            return k == "str"
        if t.name == "float":
            return k == "real"
        if t.name == "list":
            return k == "list" or (isinstance(v, SymSeq) and v.kind == "list")
        if t.name == "tuple":
            return k == "tuple" or (isinstance(v, SymSeq) and v.kind == "tuple")
        if t.name == "dict":
            return k == "dict"
        if t.name == "set":
            return isinstance(v, set) or (isinstance(v, SymSeq) and v.kind == "set")
        if t.name == "frozenset":
            return isinstance(v, frozenset)
        if t.name == "bytes":
            return isinstance(v, bytes)
        if t.name == "type":
            return isinstance(v, VClass)
        return False
    if isinstance(t, VClass):
        if isinstance(v, VObj):
            return v.cls.is_subclass(t) or (t.builtin and any(c.name == t.name for c in v.cls.mro()))
        if isinstance(v, Opaque):
            cq = it.reg.opaque_classes.get(v.cls, v.cls)
            if cq == t.qualname or cq == t.name:
                return True
            sup = it.reg.opaque_super.get(v.cls, ())
            return t.qualname in sup or t.name in sup
        return False
    if isinstance(t, Extern):
        short = t.name.split(".")[-1]
        if short in ("Mapping", "MutableMapping"):
            return kind(v) == "dict"
        if short in ("Sequence", "MutableSequence"):
            return kind(v) in ("list", "tuple", "str")
        if short in ("Iterable",):
            return kind(v) in ("list", "tuple", "str", "dict", "set", "seq")
        if short == "Callable":
            return isinstance(v, (VFunc, VBound, VPartial))
        if isinstance(v, VObj):
            return any(c.name in (t.name, short) for c in v.cls.mro())
        if isinstance(v, Opaque):
            return v.cls in (t.name, short) or short in it.reg.opaque_super.get(v.cls, ())
        return False
    raise OutOfSubset(f"isinstance against {t!r}")


def b_isinstance(it, args, kw):
    r = isinstance_(it, args[0], args[1])
    return r if isinstance(r, bool) else wrap(r)


def b_len(it, args, kw):
    return len_(it, args[0])


def _iter_bool(it, args, universal):
    from .interp import _GenExp, Env

    src = args[0]
    if isinstance(src, _GenExp):
        g = src
        gens = g.node.generators
        first = it.eval(gens[0].iter, g.env)
        if isinstance(first, SymSeq):
            # quantified form over unbounded sequences (possibly nested): bodies must be side-effect free
            saved = it.spec
            it.spec = True
            try:
                def build(k, env, itv):
                    j = z3.Int(it.path.fresh("k"))
                    e = Env(parent=env, module=env.module)
                    it.assign_target(gens[k].target, itv.elem(j), e)
                    conds = [_zb(truthy(it.eval(c, e))) for c in gens[k].ifs]
                    rng = z3.And(j >= 0, j < itv.n, *conds)
                    if k + 1 < len(gens):
                        nxt = it.eval(gens[k + 1].iter, e)
                        if not isinstance(nxt, SymSeq):
                            raise OutOfSubset("nested comprehension over a mix of symbolic and concrete iterables")
                        inner = build(k + 1, e, nxt)
                    else:
                        inner = _zb(truthy(it.eval(g.node.elt, e)))
                    return z3.ForAll([j], z3.Implies(rng, inner)) if universal else z3.Exists([j], z3.And(rng, inner))

                return wrap(build(0, g.env, first))
            finally:
                it.spec = saved
        if it.spec:
            terms = []
            it.comp(gens, 0, Env(parent=g.env, module=g.env.module), lambda e: terms.append(truthy(it.eval(g.node.elt, e))))
            r = z_and(*terms) if universal else z_or(*terms)
            return r if isinstance(r, bool) else wrap(r)
        # concrete iteration space: short-circuit evaluation with forks, as Python does
        result = []

        class _Stop(Exception):
            pass

        def emit(e):
            v = it.eval(g.node.elt, e)
            t = it.branch_truthy(v)
            if universal and not t:
                result.append(False)
                raise _Stop()
            if not universal and t:
                result.append(True)
                raise _Stop()

        try:
            it.comp(gens, 0, Env(parent=g.env, module=g.env.module), emit)
        except _Stop:
            return result[0]
        return universal
    items = it.iterate_all(src)
    for x in items:
        t = it.branch_truthy(x)
        if universal and not t:
            return False
        if not universal and t:
            return True
    return universal


def _zb(b):
    return z3.BoolVal(b) if isinstance(b, bool) else b


def b_any(it, args, kw):
    return _iter_bool(it, args, False)


def b_all(it, args, kw):
    return _iter_bool(it, args, True)


def _listify(it, v):
    from .interp import _GenExp

    if isinstance(v, _GenExp):
        return it.genexp_list(v)
    return it.iterate_all(v)


def b_sum(it, args, kw):
    items = _listify(it, args[0])
    total = args[1] if len(args) > 1 else 0
    import ast

    for x in items:
        total = ops.binop(it, ast.Add(), total, x)
    return total


def _minmax(it, args, kw, is_max):
    items = _listify(it, args[0]) if len(args) == 1 else list(args)
    if "key" in kw:
        raise OutOfSubset("min/max with key")
    if not items:
        if "default" in kw:
            return kw["default"]
        it.raise_builtin("ValueError", "empty sequence")
    cur = items[0]
    for x in items[1:]:
        c = ops.compare(">" if is_max else "<", x, cur)
        if isinstance(c, bool):
            cur = x if c else cur
        elif kind(x) in ("int", "bool") and kind(cur) in ("int", "bool"):
            cur = wrap(z3.If(c, ops.as_int_z(x), ops.as_int_z(cur)))
        elif kind(x) in ("int", "real", "bool") and kind(cur) in ("int", "real", "bool"):
            cur = wrap(z3.If(c, ops.as_real_z(x), ops.as_real_z(cur)))
        else:
            cur = x if it.path.branch(c) else cur
    return cur


def b_min(it, args, kw):
    return _minmax(it, args, kw, False)


def b_max(it, args, kw):
    return _minmax(it, args, kw, True)


def b_abs(it, args, kw):
    v = args[0]
    if is_sym(v):
        z = z3_of(v)
        return wrap(z3.If(z >= 0, z, -z))
    return abs(v)


def b_range(it, args, kw):
    if any(is_sym(a) for a in args):
        raise OutOfSubset("range with symbolic bound (needs a loop invariant)")
    return range(*args)


def b_enumerate(it, args, kw):
    start = args[1] if len(args) > 1 else kw.get("start", 0)
    return [(i + start, x) for i, x in enumerate(_listify(it, args[0]))]


def b_zip(it, args, kw):
    return [tuple(t) for t in zip(*[_listify(it, a) for a in args])]


def b_reversed(it, args, kw):
    return list(reversed(_listify(it, args[0])))


def b_sorted(it, args, kw):
    items = _listify(it, args[0])
    if _has_sym(items) or kw.get("key") is not None:
        if len(items) <= 1:
            return list(items)
        if len(items) <= 3:
            # the order of symbolic / opaque items is unknown: every permutation is a possible result (over-approximation: an obligation must hold for each of them)
            import itertools

            perms = [list(p) for p in itertools.permutations(items)]
            k = it.path.choose([(i, True) for i in range(len(perms))], "sorted-order")
            return perms[k]
        raise OutOfSubset("sorted() of more than 3 symbolic values / with key")
    return sorted(items, reverse=bool(kw.get("reverse", False)))


def b_list(it, args, kw):
    if not args:
        return []
    if isinstance(args[0], VGen) and any(isinstance(x, SeqChunk) for x in args[0].items):
        if args[0].exc is not None:
            raise args[0].exc
        return MixedSeq([("seq", x.seq) if isinstance(x, SeqChunk) else ("item", x) for x in args[0].items])
    if isinstance(args[0], SymSeq):
        s = args[0]
        return SymSeq(s.name + "'", s.n, s.maker, "list")
    return list(it.any_set_order(args[0], _listify(it, args[0])))


def b_tuple(it, args, kw):
    if not args:
        return ()
    if isinstance(args[0], SymSeq):
        s = args[0]
        return SymSeq(s.name + "'", s.n, s.maker, "tuple")
    return tuple(it.any_set_order(args[0], _listify(it, args[0])))


def b_set(it, args, kw):
    if not args:
        return set()
    if isinstance(args[0], SymSeq):
        s = args[0]
        return SymSeq(s.name + "'", s.n, s.maker, "set")  # membership is all that is observable of a set built from a sequence
    items = _listify(it, args[0])
    try:
        return set(items)
    except TypeError:
        raise OutOfSubset("set() of unhashable / symbolic values")


def b_frozenset(it, args, kw):
    return frozenset(b_set(it, args, kw))


def b_dict(it, args, kw):
    d = {}
    if args:
        src = args[0]
        if isinstance(src, dict):
            d.update(src)
        else:
            for pair in _listify(it, src):
                kv = it.iterate_all(pair) if isinstance(pair, (list, tuple)) or not isinstance(pair, (str, int)) else None
                if kv is None or len(kv) != 2:
                    it.raise_builtin("ValueError", "dictionary update sequence element has wrong length")
                it.store_subscript(d, kv[0], kv[1])
    d.update(kw)
    return d


def b_getattr(it, args, kw):
    from .interp import PyExc

    obj, name = args[0], args[1]
    if (isinstance(name, VObj) and getattr(name.cls, "is_enum", False) and isinstance(name.fields.get("value"), str)
            and any(getattr(b, "id", None) == "str" for b in getattr(getattr(name.cls, "node", None), "bases", []))):
        name = name.fields["value"]  # a member of a `class K(str, Enum)` IS its string value
    if not isinstance(name, str):
        raise OutOfSubset("getattr with symbolic name")
    if len(args) > 2:
        try:
            return it.getattr(obj, name)
        except PyExc as e:
            if e.exc.cls.name == "AttributeError":
                return args[2]
            raise
    return it.getattr(obj, name)


def b_setattr(it, args, kw):
    if not isinstance(args[1], str):
        raise OutOfSubset("setattr with symbolic name")
    it.setattr(args[0], args[1], args[2])


def b_hasattr(it, args, kw):
    from .interp import PyExc

    obj, name = args[0], args[1]
    if isinstance(name, str) and name.startswith("__") and name.endswith("__"):
        # dunder probes on plain data (`hasattr(v, "__iter__")`): answered from the Python type of the value
        if isinstance(obj, (list, tuple, dict, set, frozenset, str, bytes, int, float, bool)) or obj is None:
            return hasattr(obj, name)
        if isinstance(obj, SStr):
            return hasattr("", name)
        if isinstance(obj, (SInt, SBool, SReal)):
            return hasattr(0, name)
        if isinstance(obj, SymSeq):
            return hasattr([], name)
    try:
        it.getattr(args[0], args[1])
        return True
    except PyExc as e:
        if e.exc.cls.name == "AttributeError":
            return False
        raise


def b_callable(it, args, kw):
    from .interp import BuiltinFn, SpecCallable

    v = args[0]
    return isinstance(v, (VFunc, VBound, VPartial, BuiltinFn, SpecCallable, VClass)) or (isinstance(v, VObj) and bool(v.cls.find_method("__call__")))


def b_id(it, args, kw):
    return id(args[0])


def b_iter(it, args, kw):
    return VGen(list(_listify(it, args[0])))


def b_next(it, args, kw):
    g = args[0]
    if not isinstance(g, VGen):
        raise OutOfSubset("next() of non-generator")
    if g.pos < len(g.items):
        g.pos += 1
        return g.items[g.pos - 1]
    if g.exc is not None:
        raise g.exc
    if len(args) > 1:
        return args[1]
    it.raise_builtin("StopIteration")


def b_type(it, args, kw):
    from .interp import NATIVE_TYPES

    v = args[0]
    if isinstance(v, VObj):
        return v.cls
    n = type_name(v)
    if n in NATIVE_TYPES:
        return NATIVE_TYPES[n]
    raise OutOfSubset(f"type() of {v!r}")


def b_print(it, args, kw):
    return None


def b_hash(it, args, kw):
    v = args[0]
    if isinstance(v, VObj):
        m = v.cls.find_method("__hash__")
        if m:
            return it.call(it.getattr(v, "__hash__"), [], {})
        return id(v)
    if is_sym(v):
        f = z3.Function("py:hash", z3_of(v).sort(), z3.IntSort())
        return wrap(f(z3_of(v)))
    if isinstance(v, (VFunc, VBound)):
        return id(v)
    try:
        return hash(v)
    except TypeError:
        it.raise_builtin("TypeError", "unhashable")


def b_issubclass(it, args, kw):
    a, b = args
    if isinstance(b, tuple):
        return any(b_issubclass(it, [a, x], {}) for x in b)
    if isinstance(a, VClass) and isinstance(b, VClass):
        return a.is_subclass(b)
    if isinstance(a, Opaque):
        # an opaque class object: nothing is known about its bases - both answers are possible
        return wrap(z3.Bool(it.path.fresh("issubclass")))
    raise OutOfSubset("issubclass")


def b_map(it, args, kw):
    f = args[0]
    return [it.call(f, [x], {}) for x in _listify(it, args[1])]


def b_filter(it, args, kw):
    f = args[0]
    out = []
    for x in _listify(it, args[1]):
        if it.branch_truthy(it.call(f, [x], {}) if f is not None else x):
            out.append(x)
    return out


def b_vars(it, args, kw):
    if isinstance(args[0], VObj):
        return args[0].fields
    raise OutOfSubset("vars()")


def b_divmod(it, args, kw):
    import ast

    return (ops.binop(it, ast.FloorDiv(), args[0], args[1]), ops.binop(it, ast.Mod(), args[0], args[1]))


def b_round(it, args, kw):
    if not any(is_sym(a) for a in args):
        return round(*args)
    raise OutOfSubset("round of symbolic")


def b_ord(it, args, kw):
    v = args[0]
    if isinstance(v, str):
        return ord(v)
    if isinstance(v, SStr):
        return wrap(z3.StrToCode(v.z))
    raise OutOfSubset("ord")


def b_chr(it, args, kw):
    v = args[0]
    if isinstance(v, int):
        return chr(v)
    if isinstance(v, SInt):
        return wrap(z3.StrFromCode(v.z))
    raise OutOfSubset("chr")


BUILTINS = {
    "len": b_len, "isinstance": b_isinstance, "any": b_any, "all": b_all, "sum": b_sum, "min": b_min, "max": b_max,
    "abs": b_abs, "range": b_range, "enumerate": b_enumerate, "zip": b_zip, "reversed": b_reversed, "sorted": b_sorted,
    "getattr": b_getattr, "setattr": b_setattr, "hasattr": b_hasattr, "callable": b_callable, "id": b_id, "iter": b_iter,
    "next": b_next, "type": b_type, "print": b_print, "hash": b_hash, "issubclass": b_issubclass, "map": b_map,
    "filter": b_filter, "vars": b_vars, "divmod": b_divmod, "round": b_round, "repr": lambda it, a, k: repr_(it, a[0]),
    "ord": b_ord, "chr": b_chr,
}


# ------------------------------------------------------------------ conversions (calls of native types)
def convert(it, t, args, kw):
    name = t.name
    if name == "type":
        return b_type(it, args, kw)
    if name == "list":
        return b_list(it, args, kw)
    if name == "tuple":
        return b_tuple(it, args, kw)
    if name == "set":
        return b_set(it, args, kw)
    if name == "frozenset":
        return b_frozenset(it, args, kw)
    if name == "dict":
        return b_dict(it, args, kw)
    if name == "str":
        return str_(it, args[0]) if args else ""
    if name == "bool":
        if not args:
            return False
        tv = truthy(args[0])
        return tv if isinstance(tv, bool) else wrap(tv)
    if name == "int":
        if not args:
            return 0
        v = args[0]
        if isinstance(v, (SInt,)):
            return v
        if isinstance(v, (bool, SBool)):
            return wrap(ops.as_int_z(v))
        if isinstance(v, SStr):
            # int(s): decimal digits only in the model; anything else raises ValueError
            n = z3.StrToInt(v.z)
            ok = z3.And(n >= 0, z3.Length(v.z) > 0, z3.IntToStr(n) == v.z)
            if it.path.branch(ok):
                return wrap(n)
            raise OutOfSubset("int() of a non-canonical decimal string")
        if isinstance(v, SReal):
            raise OutOfSubset("int(real)")
        try:
            return int(*args)
        except ValueError as e:
            it.raise_builtin("ValueError", str(e))
        except TypeError as e:
            it.raise_builtin("TypeError", str(e))
    if name == "float":
        v = args[0]
        if isinstance(v, (SInt, SBool)):
            return wrap(z3.ToReal(ops.as_int_z(v)))
        if isinstance(v, SReal):
            return v
        try:
            return float(v)
        except (ValueError, TypeError) as e:
            it.raise_builtin(type(e).__name__, str(e))
    if name == "bytes":
        if not any(_has_sym(a) for a in args):
            return bytes(*args)
    if name == "object":
        from .interp import builtin_class

        return VObj(builtin_class("object"), {})
    raise OutOfSubset(f"conversion {name}({args!r})")


# ------------------------------------------------------------------ subscripts / slices
def getitem(it, obj, key):
    if isinstance(obj, (list, tuple)):
        if isinstance(key, bool):
            key = int(key)
        if isinstance(key, int):
            if -len(obj) <= key < len(obj):
                return obj[key]
            it.raise_builtin("IndexError", "index out of range")
        if isinstance(key, SInt):
            # fork over the concrete positions
            n = len(obj)
            opts = [(i, key.z == i) for i in range(n)] + [(i - n, key.z == i - n) for i in range(n)] + [(None, z3.Or(key.z >= n, key.z < -n))]
            k = it.path.choose(opts, "index")
            if k is None:
                it.raise_builtin("IndexError", "index out of range")
            return obj[k]
        raise OutOfSubset(f"list index {key!r}")
    if isinstance(obj, dict):
        if it.spec and (is_sym(key) or has_symkeys(obj)) and obj and all(is_sym(v) or isinstance(v, (int, str, bool)) for v in obj.values()):
            # specification-side lookup: no forking, no exception - an if-then-else chain over the keys (arbitrary value when the key is absent;
            # clauses guard such lookups with `k in d`)
            vals = list(obj.items())
            zs = [z3_of(v) for _, v in vals]
            if len({z.sort() for z in zs}) == 1:
                cur = z3.Const(it.path.fresh("undefined"), zs[0].sort())
                for (k, _), z in reversed(list(zip(vals, zs))):
                    c = eq(k, key)
                    cur = z if c is True else (cur if c is False else z3.If(c, z, cur))
                r = wrap(cur)
                probe = vals[0][1]
                if isinstance(r, Opaque) and isinstance(probe, Opaque):
                    r = Opaque(probe.sort, r.z, probe.cls)
                return r
        k = _dict_lookup(it, obj, key)
        if k is _MISSING:
            it.raise_builtin("KeyError", key)
        return obj[k]
    if isinstance(obj, SymSeq):
        if isinstance(key, (int, SInt)) and not isinstance(key, bool):
            kz = z3_of(key)
            if isinstance(key, int) and key < 0:
                kz = obj.n + key
            it.safety("IndexError", z3.And(kz >= 0, kz < obj.n))
            return obj.elem(kz)
        raise OutOfSubset("sequence index")
    if isinstance(obj, str) and isinstance(key, int):
        if -len(obj) <= key < len(obj):
            return obj[key]
        it.raise_builtin("IndexError", "string index out of range")
    if isinstance(obj, (str, SStr)) and isinstance(key, (int, SInt)):
        s = z3_of(obj)
        kz = z3_of(key)
        n = z3.Length(s)
        kk = z3.If(kz < 0, n + kz, kz)
        it.safety("IndexError", z3.And(kk >= 0, kk < n))
        return wrap(z3.SubString(s, kk, 1))
    if isinstance(obj, VObj):
        m = obj.cls.find_method("__getitem__") or it.reg.nominal_methods.get(obj.cls.qualname, {}).get("__getitem__")
        if m:
            return it.call(it.getattr(obj, "__getitem__"), [key], {})
    if isinstance(obj, Opaque):
        return it.opaque_method(obj, "__getitem__", [key], {})
    if isinstance(obj, range) and isinstance(key, int):
        return obj[key]
    if isinstance(obj, bytes) and isinstance(key, int):
        return obj[key]
    from .interp import NativeType

    if isinstance(obj, (NativeType, VClass, Extern)):
        return obj  # typing subscripts: list[int]
    raise OutOfSubset(f"subscript of {obj!r}")


_MISSING = object()


class SeqChunk:
    def __init__(self, seq):
        self.seq = seq


def slice_(it, obj, lo, hi, st):
    if isinstance(obj, (list, tuple, str, bytes)) and not any(is_sym(x) for x in (lo, hi, st)):
        return obj[slice(lo, hi, st)]
    if isinstance(obj, (str, SStr)) and st is None:
        s = z3_of(obj)
        n = z3.Length(s)

        def norm(v, default):
            if v is None:
                return default
            z = z3_of(v)
            z = z3.If(z < 0, z3.If(n + z < 0, 0, n + z), z3.If(z > n, n, z))
            return z

        a = norm(lo, z3.IntVal(0))
        b = norm(hi, n)
        return wrap(z3.If(b > a, z3.SubString(s, a, b - a), z3.StringVal("")))
    if isinstance(obj, SymSeq) and st is None and hi is None and isinstance(lo, int) and lo >= 0:
        return SymSeq(obj.name + f"[{lo}:]", z3.If(obj.n >= lo, obj.n - lo, 0), lambda i, o=obj, k=lo: o.elem(i + k), obj.kind)
    raise OutOfSubset(f"slice of {obj!r}")


# ------------------------------------------------------------------ attributes / methods of native values
_STR_METHODS = {"upper", "lower", "strip", "lstrip", "rstrip", "split", "rsplit", "startswith", "endswith", "join", "replace",
                "find", "rfind", "index", "partition", "rpartition", "title", "capitalize", "isdigit", "isalpha", "isalnum", "isascii",
                "format", "encode", "count", "splitlines", "zfill", "casefold", "isidentifier", "isspace", "removeprefix",
                "removesuffix", "center", "ljust", "rjust", "islower", "isupper", "isnumeric", "isdecimal", "translate", "expandtabs"}
_LIST_METHODS = {"append", "extend", "pop", "insert", "copy", "clear", "reverse", "index", "remove", "count", "sort"}
_DICT_METHODS = {"get", "items", "keys", "values", "update", "setdefault", "pop", "copy", "clear", "popitem"}
_SET_METHODS = {"add", "update", "copy", "discard", "remove", "clear", "union", "intersection", "difference", "issubset", "issuperset", "isdisjoint", "pop"}


def native_attr(it, obj, name):
    from .interp import NativeMethod

    if isinstance(obj, (str, SStr)) and name in _STR_METHODS:
        return NativeMethod(obj, name)
    if isinstance(obj, list) and name in _LIST_METHODS:
        return NativeMethod(obj, name)
    if isinstance(obj, dict) and name in _DICT_METHODS:
        return NativeMethod(obj, name)
    if isinstance(obj, (set, frozenset)) and name in _SET_METHODS:
        return NativeMethod(obj, name)
    if isinstance(obj, tuple) and name in ("index", "count"):
        return NativeMethod(obj, name)
    if isinstance(obj, bytes) and name in ("decode", "startswith", "endswith"):
        return NativeMethod(obj, name)
    if isinstance(obj, SymSeq) and name in ("copy", "__len__", "append", "add"):
        return NativeMethod(obj, name)
    if isinstance(obj, VGen) and name in ("close",):
        return NativeMethod(obj, name)
    if isinstance(obj, (int, SInt)) and name in ("bit_length",):
        return NativeMethod(obj, name)
    if isinstance(obj, tuple) and len(obj) == 3 and obj[0] == "__ctxmgr__":
        raise OutOfSubset("context manager object attribute")
    if name == "__class__":
        from .interp import NATIVE_TYPES

        tn = type_name(obj)
        if tn in NATIVE_TYPES:
            return NATIVE_TYPES[tn]
    from .interp import NativeType

    if isinstance(obj, NativeType):
        if name == "__name__":
            return obj.name
        if obj.name == "dict" and name == "fromkeys":
            return NativeMethod(obj, name)
        if obj.name == "str" and name in _STR_METHODS:
            return NativeMethod(obj, "unbound:" + name)
    raise OutOfSubset(f"attribute {name} of {type_name(obj)} value")


def native_method(it, obj, name, args, kw):
    if isinstance(obj, (str, SStr)):
        return str_method(it, obj, name, args, kw)
    if isinstance(obj, list):
        return list_method(it, obj, name, args, kw)
    if isinstance(obj, dict):
        return dict_method(it, obj, name, args, kw)
    if isinstance(obj, (set, frozenset)):
        return set_method(it, obj, name, args, kw)
    if isinstance(obj, tuple):
        if name == "index":
            for i, x in enumerate(obj):
                if it.path.branch(_zb(it.py_eq(x, args[0]))):
                    return i
            it.raise_builtin("ValueError", "not in tuple")
        if name == "count":
            import ast

            total = 0
            for x in obj:
                c = it.py_eq(x, args[0])
                total = ops.binop(it, ast.Add(), total, c if isinstance(c, bool) else wrap(c))
            return total
    if isinstance(obj, bytes):
        if not _has_sym(list(args)):
            return getattr(obj, name)(*args, **kw)
    if isinstance(obj, SymSeq):
        if name == "copy":
            return SymSeq(obj.name + "'", obj.n, obj.maker, obj.kind)
        if name == "__len__":
            return wrap(obj.n)
        if name == "append":
            # in-place append of a scalar / opaque element: element i of the new sequence is `x` at the old length, the old element elsewhere
            x = args[0]
            old_n, old_maker = obj.n, obj.maker
            probe = old_maker(z3.IntVal(0))
            if isinstance(probe, VObj) or (isinstance(x, VObj) and not (isinstance(probe, Opaque) and probe.sort == "ObjRef")):
                raise OutOfSubset("append of a structured object to a symbolic sequence (declare the elements as Opq('ObjRef') to track identities only)")
            zx = z3_of(x)
            if z3_of(probe).sort() != zx.sort():
                raise OutOfSubset("append of an element of a different sort to a symbolic sequence")

            def maker(i, _n=old_n, _m=old_maker, _zx=zx, _probe=probe):
                v = wrap(z3.If(i == _n, _zx, z3_of(_m(i))))
                if isinstance(v, Opaque) and isinstance(_probe, Opaque):
                    v = Opaque(_probe.sort, v.z, _probe.cls)
                return v

            obj.n = old_n + 1
            obj.maker = maker
            return None
        if name == "add":
            raise OutOfSubset("mutation of a symbolic set")
    if isinstance(obj, VGen) and name == "close":
        return None
    from .interp import NativeType

    if isinstance(obj, NativeType):
        if name == "fromkeys":
            return {k: (args[1] if len(args) > 1 else None) for k in _listify(it, args[0])}
        if name.startswith("unbound:"):
            return native_method(it, args[0], name.split(":", 1)[1], args[1:], kw)
    raise OutOfSubset(f"method {name} on {type_name(obj)}")


def str_method(it, s, name, args, kw):
    if isinstance(s, str) and not _has_sym(list(args)) and not _has_sym(kw):
        a = [tuple(x) if isinstance(x, list) and name in ("startswith", "endswith") else x for x in args]
        if name == "join":
            a = [_listify(it, args[0])]
            if _has_sym(a[0]):
                return _sym_join(it, s, a[0])
            if not all(isinstance(x, str) for x in a[0]):
                it.raise_builtin("TypeError", "sequence item: expected str instance")
        try:
            return getattr(s, name)(*a, **kw)
        except (ValueError, TypeError, KeyError, IndexError) as e:
            it.raise_builtin(type(e).__name__, str(e))
    z = z3_of(s)
    if name == "join":
        return _sym_join(it, s, _listify(it, args[0]))
    if name in ("startswith", "endswith"):
        pref = args[0]
        if isinstance(pref, (tuple, list)):
            return wrap(_zb(z_or(*[_zb(_affix(z, z3_of(p), name)) for p in pref])))
        return wrap(_affix(z, z3_of(pref), name))
    if name == "find" and len(args) == 1:
        return wrap(z3.IndexOf(z, z3_of(args[0]), 0))
    if name == "replace" and len(args) == 2:
        # str.replace replaces ALL occurrences; z3's str.replace_all
        return wrap(z3.ReplaceAll(z, z3_of(args[0]), z3_of(args[1]))) if hasattr(z3, "ReplaceAll") else _oos("replace")
    if name in ("upper", "lower"):
        f = z3.Function(f"str:{name}", z3.StringSort(), z3.StringSort())
        r = f(z)
        # idempotence and length preservation (ASCII model, assumption E9)
        it.path.assume(f(r) == r)
        it.path.assume(z3.Length(r) == z3.Length(z))
        return wrap(r)
    if name == "isdigit" and hasattr(z3, "InRe"):
        return wrap(z3.InRe(z, z3.Plus(z3.Range("0", "9"))))
    if name == "encode":
        # the UTF-8 bytes of a symbolic string: an opaque value, an (injective-unaware) uninterpreted function of the string
        from .values import ref_sort

        return Opaque("Utf8Bytes", z3.Function("str:utf8", z3.StringSort(), ref_sort("Utf8Bytes"))(z), "Utf8Bytes")
    raise OutOfSubset(f"str.{name} on symbolic string")


def _oos(what):
    raise OutOfSubset(what)


def _affix(z, p, name):
    return z3.PrefixOf(p, z) if name == "startswith" else z3.SuffixOf(p, z)


def _sym_join(it, sep, items):
    if not items:
        return ""
    parts = []
    for i, x in enumerate(items):
        if i:
            parts.append(z3_of(sep))
        if not isinstance(x, (str, SStr)):
            it.raise_builtin("TypeError", "sequence item: expected str instance")
        parts.append(z3_of(x))
    return wrap(z3.Concat(*parts)) if len(parts) > 1 else wrap(parts[0])


def list_method(it, lst, name, args, kw):
    if name == "append":
        lst.append(args[0])
        return None
    if name == "extend":
        lst.extend(_listify(it, args[0]))
        return None
    if name == "pop":
        if not lst:
            it.raise_builtin("IndexError", "pop from empty list")
        if args and not isinstance(args[0], int):
            raise OutOfSubset("pop with symbolic index")
        return lst.pop(*args)
    if name == "insert":
        if not isinstance(args[0], int):
            raise OutOfSubset("insert with symbolic index")
        lst.insert(args[0], args[1])
        return None
    if name == "copy":
        return list(lst)
    if name == "clear":
        lst.clear()
        return None
    if name == "reverse":
        lst.reverse()
        return None
    if name == "index":
        for i, x in enumerate(lst):
            if it.path.branch(_zb(it.py_eq(x, args[0]))):
                return i
        it.raise_builtin("ValueError", "not in list")
    if name == "remove":
        for i, x in enumerate(lst):
            if it.path.branch(_zb(it.py_eq(x, args[0]))):
                del lst[i]
                return None
        it.raise_builtin("ValueError", "not in list")
    if name == "count":
        n = 0
        for x in lst:
            if it.path.branch(_zb(it.py_eq(x, args[0]))):
                n += 1
        return n
    if name == "sort":
        if _has_sym(lst) or kw.get("key") is not None:
            raise OutOfSubset("sort of symbolic list")
        lst.sort(reverse=bool(kw.get("reverse", False)))
        return None
    raise OutOfSubset(f"list.{name}")


def has_symkeys(d):
    return any(is_sym(k) for k in d)


def _dict_lookup(it, d, key):
    """Returns (found_key or _MISSING) forking on symbolic keys."""
    if not is_sym(key) and not has_symkeys(d):
        try:
            return key if key in d else _MISSING
        except TypeError:
            it.raise_builtin("TypeError", "unhashable")
    if not is_sym(key) and key in d:
        return key
    conds = [(k, _zb(eq(k, key))) for k in d]
    conds = [(k, c) for k, c in conds if not z3.is_false(z3.simplify(c))]
    opts = conds + [(_MISSING, z_and(*[z_not(c) for _, c in conds]) if conds else True)]
    return it.path.choose(opts, "key")


def dict_method(it, d, name, args, kw):
    if name == "get":
        k = _dict_lookup(it, d, args[0])
        if k is _MISSING:
            return args[1] if len(args) > 1 else kw.get("default", None)
        return d[k]
    if name == "items":
        return DictView(d, "items")
    if name == "keys":
        return DictView(d, "keys")
    if name == "values":
        return DictView(d, "values")
    if name == "update":
        for a in args:
            if isinstance(a, dict):
                for k, v in list(a.items()):
                    it.store_subscript(d, k, v)
            else:
                for pair in _listify(it, a):
                    k, v = it.iterate_all(pair)
                    it.store_subscript(d, k, v)
        for k, v in kw.items():
            it.store_subscript(d, k, v)
        return None
    if name == "setdefault":
        k = _dict_lookup(it, d, args[0])
        if k is _MISSING:
            d[args[0]] = args[1] if len(args) > 1 else None
            return d[args[0]]
        return d[k]
    if name == "pop":
        k = _dict_lookup(it, d, args[0])
        if k is _MISSING:
            if len(args) > 1:
                return args[1]
            it.raise_builtin("KeyError", args[0])
        return d.pop(k)
    if name == "copy":
        return dict(d)
    if name == "clear":
        d.clear()
        return None
    if name == "popitem":
        if not d:
            it.raise_builtin("KeyError", "popitem(): dictionary is empty")
        return d.popitem()
    raise OutOfSubset(f"dict.{name}")


def set_method(it, s, name, args, kw):
    if name == "add" and is_sym(args[0]):
        # symbolic elements live in the native set by identity; every membership test goes through semantic equality (Interp.contains)
        s.add(args[0])
        return None
    if _has_sym(list(args)) and not all(isinstance(a, (VObj, set, frozenset, list, tuple)) for a in args):
        raise OutOfSubset(f"set.{name} with symbolic element")
    try:
        if name == "add":
            s.add(args[0])
            return None
        if name == "update":
            for a in args:
                s.update(_listify(it, a))
            return None
        if name == "copy":
            return set(s) if isinstance(s, set) else s
        if name == "discard":
            s.discard(args[0])
            return None
        if name == "remove":
            if args[0] not in s:
                it.raise_builtin("KeyError", args[0])
            s.remove(args[0])
            return None
        if name == "clear":
            s.clear()
            return None
        if name in ("union", "intersection", "difference", "issubset", "issuperset", "isdisjoint"):
            return getattr(s, name)(*[set(_listify(it, a)) for a in args])
    except TypeError:
        raise OutOfSubset("set of unhashable values")
    raise OutOfSubset(f"set.{name}")


# ------------------------------------------------------------------ stdlib / third-party models (assumed, E5/E9)
def x_partial(it, args, kw):
    return VPartial(args[0], list(args[1:]), dict(kw))


def x_identity_decorator(it, args, kw):
    return args[0]


def x_chain(it, args, kw):
    out = []
    for a in args:
        out.extend(_listify(it, a))
    return out


def x_chain_from_iterable(it, args, kw):
    out = []
    for a in _listify(it, args[0]):
        out.extend(_listify(it, a))
    return out


def x_simple_namespace(it, args, kw):
    from .interp import builtin_class

    cls = VClass("SimpleNamespace", None, [], builtin=True)
    return VObj(cls, dict(kw))


def x_deepcopy(it, args, kw):
    return _deepcopy(args[0], {})


def _deepcopy(v, memo):
    if isinstance(v, list):
        return [_deepcopy(x, memo) for x in v]
    if isinstance(v, dict):
        return {k: _deepcopy(x, memo) for k, x in v.items()}
    if isinstance(v, tuple):
        return tuple(_deepcopy(x, memo) for x in v)
    if isinstance(v, set):
        return set(v)
    if isinstance(v, VObj):
        if id(v) in memo:
            return memo[id(v)]
        o = VObj(v.cls, {})
        memo[id(v)] = o
        for k, x in v.fields.items():
            o.fields[k] = _deepcopy(x, memo)
        return o
    return v


def x_cast(it, args, kw):
    return args[1]


def x_field(it, args, kw):
    raise OutOfSubset("dataclasses.field outside a class body")


_AUTO = [1000]


def x_enum_auto(it, args, kw):
    _AUTO[0] += 1
    return _AUTO[0]


class NoopCM:
    """A context manager whose enter/exit have no effect the contracts care about (warnings filters, hypothesis reporter)."""

    def __init__(self, value=None):
        self.value = value


class SuppressCM:
    """contextlib.suppress(*exceptions): exceptions of the given classes raised by the body are swallowed."""

    def __init__(self, classes):
        self.classes = tuple(classes)


def x_suppress(it, args, kw):
    return SuppressCM(args)


def x_noop(it, args, kw):
    return None


def x_dataclasses_replace(it, args, kw):
    """dataclasses.replace(obj, **changes): a new object of the same class with the given fields replaced (E5; the class's __post_init__ is not re-run: the repository's uses are plain records)."""
    obj = args[0]
    if not isinstance(obj, VObj):
        raise OutOfSubset("dataclasses.replace of a non-object")
    return VObj(obj.cls, {**obj.fields, **kw})


def x_catch_warnings(it, args, kw):
    return NoopCM([] if kw.get("record") else None)


def x_uuid4(it, args, kw):
    from .contracts import fresh_opaque

    return fresh_opaque(it, "UUID")


def x_time(it, args, kw):
    return SReal(z3.Real(it.path.fresh("time")))


class Cycle:
    """itertools.cycle over a concrete, non-empty list (E5: next(islice(cycle(xs), i, None)) == xs[i mod len(xs)])."""

    def __init__(self, items):
        self.items = items


def x_cycle(it, args, kw):
    items = _listify(it, args[0])
    return Cycle(items)


def x_islice(it, args, kw):
    src, rest = args[0], list(args[1:])
    if isinstance(src, Cycle):
        start = rest[0] if rest else 0
        stop = rest[1] if len(rest) > 1 else None
        if is_sym(start) or (stop is not None and is_sym(stop)):
            raise OutOfSubset("islice with symbolic bounds")
        if not src.items:
            return VGen([])
        n = len(src.items)
        count = (stop - start) if stop is not None else n
        return VGen([src.items[(start + k) % n] for k in range(max(count, 0))])
    items = _listify(it, src)
    if any(is_sym(x) for x in rest):
        raise OutOfSubset("islice with symbolic bounds")
    return VGen(list(items)[slice(*rest)])


def x_combinations(it, args, kw):
    import itertools

    r = args[1] if len(args) > 1 else kw.get("r")
    if not isinstance(r, int):
        raise OutOfSubset("itertools.combinations with a symbolic size")
    return [tuple(c) for c in itertools.combinations(it.iterate_all(args[0]), r)]


EXTERN = {
    "itertools.combinations": x_combinations,
    "contextlib.suppress": x_suppress,
    "itertools.cycle": x_cycle,
    "itertools.islice": x_islice,
    "enum.auto": x_enum_auto,
    "uuid.uuid4": x_uuid4,
    "warnings.filterwarnings": x_noop,
    "warnings.simplefilter": x_noop,
    "warnings.catch_warnings": x_catch_warnings,
    "dataclasses.replace": lambda it, args, kw: x_dataclasses_replace(it, args, kw),
    "hypothesis.reporting.with_reporter": lambda it, a, k: NoopCM(None),
    "time.time": x_time,
    "time.monotonic": x_time,
    "time.perf_counter": x_time,
    "functools.partial": x_partial,
    "functools.wraps": lambda it, a, k: BuiltinIdentity(),
    "functools.lru_cache": x_identity_decorator,
    "itertools.chain": x_chain,
    "itertools.chain.from_iterable": x_chain_from_iterable,
    "types.SimpleNamespace": x_simple_namespace,
    "copy.deepcopy": x_deepcopy,
    "copy.copy": lambda it, a, k: (list(a[0]) if isinstance(a[0], list) else dict(a[0]) if isinstance(a[0], dict) else a[0]),
    "typing.cast": x_cast,
}


class BuiltinIdentity:
    pass
