"""Replay one counterexample on the REAL function under /venv/bin/python.

usage: /venv/bin/python -m pyvc.native_replay <replay.json>
prints one JSON line: {"confirmed": bool, "why": str, ...}; exit 0 always (verdict is in the JSON).
"""
from __future__ import annotations

import json
import os
import sys
import traceback

sys.path.insert(0, os.path.dirname(os.path.dirname(os.path.abspath(__file__))))
from pyvc import nativelib as N  # noqa: E402


def run(rp):
    src = rp.get("src") or os.environ.get("PYVC_SRC")
    if src:
        sys.path.insert(0, src)
    cmod = N.load_contract_module(rp["contract_module"])
    reg = cmod.REG
    c = reg.contracts[rp.get("contract_key") or rp["target"]]
    native = getattr(cmod, "NATIVE", {})
    if c.concretize is not None:
        # contract-provided translation of the solver model into realisable inputs (DESIGN 1.3 `concretize`)
        rp["inputs"] = c.concretize(rp["inputs"])
    ctx = {"stubs": {}, "ufs": rp["inputs"].get("ufs", {}), "opaque_classes": reg.opaque_classes,
           "opaque_factories": native.get("opaque_factories", {})}
    N.CTX.clear()
    N.CTX.update(ctx)
    ctx = N.CTX
    N.CALLS.clear()
    N.GHOST.clear()
    for k, cc in reg.contracts.items():
        N.ATTR_KINDS[k] = cc.kind
        N.EFFECTS[k] = cc.effects
        N.ARG_NAMES[k] = list(cc.args.keys())
    N.HELPERS.clear()
    N.HELPERS.update(native.get("helpers", {}))
    N.HELPERS.update(getattr(c, "native_helpers", None) or {})  # per-contract overrides (e.g. an uninterpreted relation read from the model instead of its real definition)
    for g, v in c.ghost.items():
        N.GHOST[g] = v if not hasattr(v, "make") else None
    patched = []
    for call in rp["inputs"].get("calls", []):
        cc = reg.contracts.get(call["target"])
        if cc is not None and cc.replay_real:
            continue
        N.CALLS.setdefault(call["target"], []).append(call)
    try:
        import importlib as _il
        _il.import_module(rp["target"].split(":")[0])  # so that its by-name imports of stubbed callees exist and can be rebound
    except Exception:
        pass
    for tgt in list(N.CALLS):
        if ":" in tgt and not tgt.split(":")[0] in ("threading", "re"):
            try:
                modname, _, path = tgt.partition(":")
                import importlib
                owner = importlib.import_module(modname)
                parts = path.split(".")
                for part in parts[:-1]:
                    owner = getattr(owner, part)
                orig = getattr(owner, parts[-1])
                is_attr = reg.contracts[tgt].kind == "attribute" or isinstance(orig, property)
                if is_attr:
                    setattr(owner, parts[-1], property(lambda self, _t=tgt: N.pop_call(_t)))
                else:
                    setattr(owner, parts[-1], (lambda _t: (lambda *a, **k: N.pop_call(_t, a, k)))(tgt))
                patched.append((owner, parts[-1], orig))
                if not is_attr and len(parts) == 1:
                    # `from module import name` copies: rebind them in every loaded repository module
                    for mn, m in list(sys.modules.items()):
                        if mn.startswith("schemathesis") and m is not None and m is not owner:
                            for gname, gval in list(vars(m).items()):
                                if gval is orig:
                                    setattr(m, gname, getattr(owner, parts[-1]))
            except Exception:
                pass
    for tgt, repl in native.get("patch", {}).items():
        # contract-provided native stand-ins for trusted pure callees that need a live object graph (stated in the contract module)
        import importlib
        modname, _, path = tgt.partition(":")
        owner = importlib.import_module(modname)
        parts = path.split(".")
        for part in parts[:-1]:
            owner = getattr(owner, part)
        setattr(owner, parts[-1], repl)
    try:
        args = {k: N.decode(v, ctx) for k, v in rp["inputs"]["args"].items() if not k.startswith("outer_")}
    except N.Undecodable as e:
        return {"confirmed": False, "why": f"undecodable input: {e}"}
    env = dict(N.HELPERS)
    for alias, fq in reg.aliases.items():
        if alias not in env:
            path = fq.partition(":")[2]
            if "." not in path:
                env[alias] = (lambda q: (lambda *a: N.resolve(q)(*a)))(fq)  # a module-level function: call the real one
            else:
                meth = path.rsplit(".", 1)[-1]
                if reg.contracts[fq].kind == "attribute":
                    env[alias] = (lambda m: (lambda obj: getattr(obj, m)))(meth)
                else:
                    env[alias] = (lambda m: (lambda obj, *a: getattr(obj, m)(*a)))(meth)
    if c.native_setup is not None:
        fn, args = c.native_setup(args, ctx)
    else:
        fn = N.resolve(rp["target"])
    env.update(args)
    for r in c.requires:
        try:
            if not N.eval_clause(r, env, {}):
                return {"confirmed": False, "why": f"model does not satisfy requires natively: {r}"}
        except Exception as e:
            return {"confirmed": False, "why": f"requires not evaluable natively: {r}: {type(e).__name__}: {e}"}
    for g, cl in (getattr(c, "ghost_init", None) or {}).items():
        try:
            N.GHOST[g] = N.eval_clause(cl, env, {})  # ghost variables initialised from the arguments at entry
        except Exception as e:  # noqa: BLE001
            return {"confirmed": False, "why": f"ghost_init {g} not evaluable natively: {type(e).__name__}: {e}"}
    clauses = list(c.ensures.values()) + list(c.raises_ensures.values())
    olds = N.capture_olds(clauses, env)
    raised = None
    result = None
    import inspect

    try:
        sig_args = dict(args)
        try:
            for prm in inspect.signature(fn).parameters.values():
                if prm.kind is inspect.Parameter.VAR_KEYWORD and isinstance(sig_args.get(prm.name), dict):
                    sig_args.update(sig_args.pop(prm.name))  # the contract names the **kwargs dict as one argument
        except (TypeError, ValueError):
            pass
        result = fn(**sig_args) if not rp.get("positional") else fn(*[args[k] for k in rp["positional"]])
        if inspect.isgenerator(result):
            items = []
            try:
                for x in result:
                    items.append(x)
            except BaseException as e:  # noqa: BLE001
                raised = e
            result = items
    except BaseException as e:  # noqa: BLE001
        raised = e
    if getattr(c, "native_view", None) is not None and raised is None:
        result = c.native_view(result)  # contract-provided abstraction of the native result (same view the clauses speak about)
    env["result"] = result
    env["raised"] = type(raised).__name__ if raised is not None else None
    env["exc"] = raised
    out = {"confirmed": False, "why": "", "result": repr(result)[:400], "raised": repr(raised)[:400] if raised is not None else None, "violated": []}
    if raised is not None:
        out["raised_at"] = "".join(traceback.format_tb(raised.__traceback__))[-700:]
        allowed = any(any(k.__name__ == r.split(":")[-1].split(".")[-1] for k in type(raised).__mro__) for r in c.raises)
        if not allowed:
            out["violated"].append(f"raises:{type(raised).__name__}")
        for k, cl in c.raises_ensures.items():
            try:
                if not N.eval_clause(cl, env, olds):
                    out["violated"].append(f"post-exc:{k}")
            except Exception as e:
                out["violated"].append(f"post-exc:{k} (native evaluation failed: {type(e).__name__}: {e})")
    else:
        for k, cl in c.ensures.items():
            try:
                if not N.eval_clause(cl, env, olds):
                    out["violated"].append(f"post:{k}")
            except Exception as e:
                out.setdefault("eval_errors", []).append(f"post:{k}: {type(e).__name__}: {e}")
    want = rp.get("obligation", "")
    kindname = want.split("::", 1)[-1]
    # (the obligation name of a contract variant is `func#variant::kind:clause`; the clause part is what is compared)
    if any(v.split(" ")[0] == kindname for v in out["violated"]):
        out["confirmed"] = True
        out["why"] = f"real function violates {kindname} on the model input"
    elif out["violated"]:
        # a different clause fails natively: not a confirmation of THIS obligation (often the harness could not build a realistic input)
        out["why"] = f"real function violates {out['violated']} on the model input, but not the reported obligation {kindname}"
    elif any(e.split(": ")[0] == kindname for e in out.get("eval_errors", [])):
        out["why"] = f"the reported clause {kindname} could not be evaluated natively ({[e for e in out['eval_errors'] if e.split(': ')[0] == kindname][0][:200]}): not judged on the real run"
    else:
        out["why"] = "real function satisfies every clause on the model input"
    if N.GHOST.get("__effect_errors__") and out["confirmed"]:
        out["confirmed"] = False
        out["why"] = f"ghost effects {N.GHOST['__effect_errors__']} could not be evaluated natively: the clause cannot be judged on the real run"
    return out


def main():
    rp = json.load(open(sys.argv[1]))
    try:
        out = run(rp)
    except Exception as e:  # noqa: BLE001
        out = {"confirmed": False, "why": f"replay harness error: {type(e).__name__}: {e}", "tb": traceback.format_exc()[-1500:]}
    print("REPLAY-RESULT " + json.dumps(out))


if __name__ == "__main__":
    main()
