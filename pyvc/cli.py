"""./check <property> --tier quick|thorough [--replay <file>] [--update-baseline] [--src DIR]"""
from __future__ import annotations

import argparse
import hashlib
import importlib.util
import json
import multiprocessing as mp
import os
import subprocess
import sys
import time
import traceback

ROOT = os.path.dirname(os.path.dirname(os.path.abspath(__file__)))
VENV_PY = "/venv/bin/python"

EXIT_OK, EXIT_VIOLATION, EXIT_UNDECIDED, EXIT_CRASH = 0, 1, 2, 3

PYTHON_SEMANTICS_ASSUMED = [
    "E9: Python semantics subset of DESIGN 1.2: ints are mathematical integers (exact in Python), floats treated as mathematical reals, "
    "str is a sequence of code points (z3 String), `==` structural, `is` exact on None/True/False/enum members/object identity, "
    "no concurrent mutation during a call, generators executed eagerly (consumer does not interleave observable side effects)",
    "extraction drops: type annotations, docstrings, __tracebackhide__, TYPE_CHECKING blocks, typing.cast (identity); decorators outside the "
    "table (dataclass, property, staticmethod, classmethod, wraps, contextmanager, lru_cache=identity assuming purity, composite) make a function out of subset",
]


def load_contracts(prop, src=None):
    path = os.path.join(ROOT, "contracts", f"{prop}.py")
    spec = importlib.util.spec_from_file_location(f"contracts_{prop}", path)
    mod = importlib.util.module_from_spec(spec)
    sys.path.insert(0, ROOT)
    spec.loader.exec_module(mod)
    return mod, path


def _job(args):
    prop, kind, key, tier, src, regions = args
    if src:
        os.environ["PYVC_SRC"] = src
    from pyvc.path import Config
    from pyvc import verify, extract

    extract.reset_cache()
    mod, _ = load_contracts(prop)
    reg = mod.REG
    cfg = Config(feas_ms=2000, obl_ms=10000 if tier == "quick" else 60000, max_paths=4000 if tier == "quick" else 60000)
    t0 = time.time()
    try:
        if kind == "contract":
            c = reg.contracts[key]
            c.known_regions = regions or {}
            rep = verify.verify_contract(reg, c, cfg)
        else:
            l = [x for x in reg.lemmas if x.name == key][0]
            rep = verify.verify_lemma(reg, l, cfg)
        out = rep.to_json()
        out["smt2"] = {o.name: o.smt2 for o in rep.obligations if o.smt2}
    except Exception as e:  # noqa: BLE001
        out = {"target": key, "status": "error", "reason": f"checker crash: {type(e).__name__}: {e}\n{traceback.format_exc()[-2000:]}",
               "obligations": [], "paths": 0, "completed_paths": 0, "inlined": [], "abstracted": [], "extern_used": [], "sha": "", "file": "",
               "lines": [0, 0], "wall_s": time.time() - t0, "solver_s": 0, "bounded_labels": [], "trusted": False, "notes": [], "smt2": {}}
    out["kind"] = kind
    return out


def _job_child(conn, job):
    try:
        conn.send(_job(job))
    finally:
        conn.close()


def _run_jobs(jobs, nproc, wall_limit_s):
    """One process per verification job, at most `nproc` at a time, each with a wall-clock limit: z3's string solver does not always honour its own timeout, and a job
    that does not come back is UNDECIDED (exit 2), never a pass and never a violation."""
    ctx = mp.get_context("fork")
    pending = list(enumerate(jobs))
    running = {}
    reports = [None] * len(jobs)
    while pending or running:
        while pending and len(running) < nproc:
            i, job = pending.pop(0)
            parent, child = ctx.Pipe(duplex=False)
            p = ctx.Process(target=_job_child, args=(child, job), daemon=True)
            p.start()
            child.close()
            running[i] = (p, parent, time.time(), job)
        for i in list(running):
            p, conn, started, job = running[i]
            if conn.poll(0.02):
                try:
                    reports[i] = conn.recv()
                except EOFError:
                    reports[i] = None
                p.join(5)
                del running[i]
            elif not p.is_alive():
                p.join()
                del running[i]
            elif time.time() - started > wall_limit_s:
                p.kill()
                p.join()
                del running[i]
            else:
                continue
            if reports[i] is None:
                why = f"no answer within the wall-clock limit of {wall_limit_s} s (solver did not return)" if time.time() - started > wall_limit_s else "the verification process died without a report"
                reports[i] = {"target": job[2], "status": "undecided", "reason": why, "obligations": [], "paths": 0, "completed_paths": 0, "inlined": [], "abstracted": [], "extern_used": [],
                              "sha": "", "file": "", "lines": [0, 0], "wall_s": round(time.time() - started, 1), "solver_s": 0, "bounded_labels": [], "trusted": False, "notes": [], "smt2": {}, "kind": job[1]}
    return reports


def cvc5_check(smt2: str, timeout_s: int):
    """Second solver for obligations z3 left unknown. Returns 'unsat' | 'sat' | 'unknown'."""
    import tempfile

    with tempfile.NamedTemporaryFile("w", suffix=".smt2", delete=False, dir=os.environ.get("TMPDIR", "/tmp")) as f:
        f.write("(set-logic ALL)\n" + smt2 + "\n")
        name = f.name
    try:
        r = subprocess.run(["/usr/bin/cvc5", "--strings-exp", f"--tlimit={timeout_s * 1000}", name], capture_output=True, text=True, timeout=timeout_s + 5)
        out = r.stdout.strip().splitlines()
        return out[0] if out and out[0] in ("sat", "unsat", "unknown") else "unknown"
    except Exception:
        return "unknown"
    finally:
        os.unlink(name)


def aggregate(reports):
    """obligation name -> {verdict, instances, model, detail, bounded}"""
    agg = {}
    for rep in reports:
        for o in rep["obligations"]:
            a = agg.setdefault(o["name"], {"verdict": "discharged", "instances": 0, "model": None, "detail": o["detail"], "kind": o["kind"],
                                           "target": rep["target"], "bounded": None, "solver_s": 0.0, "paths": []})
            a["instances"] += 1
            a["solver_s"] += o["solver_s"]
            if o.get("bounded"):
                a["bounded"] = o["bounded"]
            if o["verdict"] == "refuted":
                if a["verdict"] != "refuted":
                    a["model"] = o["model"]
                    a["detail"] = o["detail"]
                a["verdict"] = "refuted"
                a["paths"].append(o["path_id"])
            elif o["verdict"] == "unknown" and a["verdict"] == "discharged":
                a["verdict"] = "unknown"
    return agg


def native_replay(replay_path, src=None):
    env = dict(os.environ)
    env["PYTHONPATH"] = (src or os.environ.get("PYVC_SRC") or "/repo/src") + os.pathsep + ROOT
    env.pop("PYTHONHOME", None)
    try:
        r = subprocess.run([VENV_PY, os.path.join(ROOT, "pyvc", "native_replay.py"), replay_path], capture_output=True, text=True, timeout=300, env=env, cwd=ROOT)
    except subprocess.TimeoutExpired:
        return {"confirmed": False, "why": "native replay timed out"}
    for line in r.stdout.splitlines():
        if line.startswith("REPLAY-RESULT "):
            return json.loads(line[len("REPLAY-RESULT "):])
    return {"confirmed": False, "why": "native replay produced no result: " + (r.stderr or r.stdout)[-800:]}


def run_bounded(prop, tier, seed, src):
    """Bounded stand-ins / native conformance (DESIGN 1.7), executed by /venv/bin/python on the real code."""
    env = dict(os.environ)
    env["PYTHONPATH"] = (src or "/repo/src") + os.pathsep + ROOT
    try:
        r = subprocess.run([VENV_PY, os.path.join(ROOT, "pyvc", "native_bounded.py"), prop, tier, str(seed)], capture_output=True, text=True,
                           timeout=3000, env=env, cwd=ROOT)
    except subprocess.TimeoutExpired:
        return {"error": "bounded stand-ins timed out", "checks": []}
    for line in r.stdout.splitlines():
        if line.startswith("BOUNDED-RESULT "):
            return json.loads(line[len("BOUNDED-RESULT "):])
    return {"error": "no result from bounded stand-ins: " + (r.stderr or r.stdout)[-1500:], "checks": []}


def load_known_findings(prop):
    p = os.path.join(ROOT, "known_findings.json")
    if not os.path.exists(p):
        return []
    return [f for f in json.load(open(p)) if f["property"] == prop]


def main(argv=None):
    ap = argparse.ArgumentParser()
    ap.add_argument("prop")
    ap.add_argument("--tier", default=os.environ.get("VERIF_TIER", "quick"), choices=["quick", "thorough"])
    ap.add_argument("--replay")
    ap.add_argument("--update-baseline", action="store_true")
    ap.add_argument("--src", default=os.environ.get("PYVC_SRC"))
    ap.add_argument("--jobs", type=int, default=int(os.environ.get("VERIF_JOBS", "16")))
    ap.add_argument("--no-evidence", action="store_true")
    ap.add_argument("--only")
    ap.add_argument("-v", action="store_true")
    a = ap.parse_args(argv)
    prop = a.prop
    seed = int(os.environ.get("VERIF_SEED", "0") or 0)
    src = a.src
    if src:
        os.environ["PYVC_SRC"] = src
    os.environ["PYVC_TIER"] = a.tier  # descriptors widen their bounded scopes in the thorough tier (contracts._widen)
    t0 = time.time()

    if a.replay:
        return do_replay(prop, a.replay, src)

    try:
        mod, cpath = load_contracts(prop)
    except Exception as e:  # noqa: BLE001
        print(f"CHECKER-ERROR cannot load contracts for {prop}: {type(e).__name__}: {e}")
        traceback.print_exc()
        return EXIT_CRASH
    reg = mod.REG
    findings = load_known_findings(prop)
    open_findings = [f for f in findings if f.get("status") == "open"]

    # --- which known findings still reproduce natively (a finding that is gone suppresses nothing)
    live = []
    for f in open_findings:
        if f.get("witness_replay"):
            wp = os.path.join(ROOT, f["witness_replay"])
            res = native_replay(wp, src)
            f["_replay"] = res
            if res.get("confirmed"):
                live.append(f)
        elif f.get("witness_script"):
            env = dict(os.environ)
            env["PYTHONPATH"] = (src or "/repo/src") + os.pathsep + ROOT
            try:
                r = subprocess.run([VENV_PY, os.path.join(ROOT, f["witness_script"])], capture_output=True, text=True, timeout=300, env=env, cwd=ROOT)
                f["_replay"] = {"exit": r.returncode, "out": r.stdout[-500:]}
                if r.returncode == 1:
                    live.append(f)
            except subprocess.TimeoutExpired:
                pass
        elif f.get("bounded_check"):
            live.append(f)  # decided by the bounded stand-in that owns it
    regions_by_target = {}
    for f in live:
        if f.get("obligation") and f.get("region") is not None:
            tgt = f["target"]
            regions_by_target.setdefault(tgt, {}).setdefault(f["obligation"].split("::", 1)[-1], []).append(f["region"])

    os.environ["PYVC_LIVE_FINDINGS"] = ",".join(f["id"] for f in live)
    if live:
        # contract modules consult live_finding(): reload so that region exclusions are in place for the obligations counted below too
        mod, cpath = load_contracts(prop)
        reg = mod.REG
    jobs = []
    for key, c in reg.contracts.items():
        if c.trusted or c.abstract_only:
            continue
        if "<locals>" in key and c.inline and c.setup is None:
            continue  # a nested function carrying only loop invariants: verified inline, as part of its enclosing function's job
        if a.only and a.only not in key:
            continue
        jobs.append((prop, "contract", key, a.tier, src, regions_by_target.get(key)))
    for l in reg.lemmas:
        if a.only and a.only not in l.name:
            continue
        jobs.append((prop, "lemma", l.name, a.tier, src, None))
    # contracts of ANOTHER property's module that carry clauses of this property too (one function, several properties): verified as part of this check as well
    shared_regs = {}
    shared_keys = {}  # contract key -> (registry, contract module path) of the property whose module verifies it
    for oprop, key in getattr(mod, "SHARED_JOBS", []):
        if a.only and a.only not in key:
            continue
        if oprop not in shared_regs:
            omod, opath = load_contracts(oprop)
            shared_regs[oprop] = omod.REG
            shared_regs[oprop]._module_path = opath
        shared_keys[key] = (shared_regs[oprop], shared_regs[oprop]._module_path)
        jobs.append((oprop, "contract", key, a.tier, src, None))
    if not jobs:
        print(f"CHECKER-ERROR {prop}: zero verification jobs (vacuity guard)")
        return EXIT_CRASH
    reports = _run_jobs(jobs, min(a.jobs, len(jobs)), 600 if a.tier == "quick" else 3600)

    # --- second solver for unknowns
    backends = {"z3": {"obligations": 0, "solver_s": 0.0}, "cvc5": {"obligations": 0, "solver_s": 0.0}}
    for rep in reports:
        for o in rep["obligations"]:
            backends["z3"]["obligations"] += 1
            backends["z3"]["solver_s"] += o["solver_s"]
            if o["verdict"] == "unknown":
                smt = rep.get("smt2", {}).get(o["name"])
                if smt:
                    t1 = time.time()
                    r = cvc5_check(smt, 20 if a.tier == "quick" else 120)
                    backends["cvc5"]["obligations"] += 1
                    backends["cvc5"]["solver_s"] += time.time() - t1
                    if r == "unsat":
                        o["verdict"] = "discharged"
                        o["backend"] = "cvc5"
    agg = aggregate(reports)

    # --- bounded stand-ins + native conformance of the contracts (run on the real code)
    bounded = {"checks": []}
    if getattr(mod, "BOUNDED", None):
        bounded = run_bounded(prop, a.tier, seed, src)

    # --- verdicts
    baseline_path = os.path.join(ROOT, "obligations_baseline.json")
    baseline_all = json.load(open(baseline_path)) if os.path.exists(baseline_path) else {}
    baseline = baseline_all.get(prop, {})
    violations = []
    undecided = []
    crashes = []
    for rep in reports:
        if rep["status"] == "undecided":
            undecided.append(f"{rep['target']}: {rep['reason']}")
        elif rep["status"] == "error":
            crashes.append(f"{rep['target']}: {rep['reason']}")
    os.makedirs(os.path.join(ROOT, "replays"), exist_ok=True)
    for name, ag in sorted(agg.items()):
        if ag["verdict"] == "refuted":
            if ag["target"] in shared_keys:
                # a shared job: the contract (and its replay set-up) is the OTHER module's, not this module's stub of the same function
                rp = write_replay(prop, name, ag, shared_keys[ag["target"]][1], src)
                cobj = shared_keys[ag["target"]][0].contracts.get(ag["target"])
            else:
                rp = write_replay(prop, name, ag, cpath, src)
                cobj = reg.contracts.get(ag["target"])
            if cobj is not None and not cobj.replayable:
                res = {"confirmed": False, "why": "contract marked not natively replayable (needs a live engine / threads); the failed obligation and the solver's counter-model are in the replay file"}
            elif ag["model"] is not None and ag["kind"] in ("post", "raises"):
                res = native_replay(rp, src)
            else:
                res = {"confirmed": False, "why": "no model / not a top-level clause"}
            ag["replay"] = rp
            ag["replay_result"] = res
            with open(rp) as fh:
                d = json.load(fh)
            d["native_result"] = res
            with open(rp, "w") as fh:
                json.dump(d, fh, indent=1, default=str)
            if res.get("confirmed"):
                violations.append((name, rp, True))
            elif baseline.get(name) == "discharged":
                violations.append((name, rp, False))
            elif ag["kind"] == "raises" and any(n.startswith(name.split("::")[0] + "::") for n in baseline) and not any(
                    n.startswith(name.split("::")[0] + "::raises:") for n in baseline):
                # an exception now escapes a function whose contract (no such exception) was discharged in the committed baseline
                violations.append((name, rp, False))
            else:
                undecided.append(f"{name}: refuted by the solver but not reproduced natively and not in the discharged baseline ({res.get('why')})")
        elif ag["verdict"] == "unknown":
            undecided.append(f"{name}: solver answered unknown (z3 and cvc5)")
    for bc in bounded.get("checks", []):
        for v in bc.get("violations", []):
            rp = os.path.join(ROOT, "replays", f"{prop}-bounded-{bc['name']}-{hashlib.sha1(json.dumps(v, sort_keys=True, default=str).encode()).hexdigest()[:10]}.json")
            with open(rp, "w") as fh:
                json.dump({"property": prop, "kind": "bounded", "check": bc["name"], "violation": v, "contract_module": cpath}, fh, indent=1, default=str)
            violations.append((f"bounded:{bc['name']}", rp, True))
    if bounded.get("error"):
        crashes.append(bounded["error"])

    # vacuity / baseline guards
    missing = [n for n, v in baseline.items() if v == "discharged" and n not in agg and ("::post:" in n or n.startswith("lemma:"))]
    if a.only:
        missing = []
    und_targets = {rep["target"].partition(":")[2] for rep in reports if rep["status"] != "ok"}
    missing = [n for n in missing if n.split("::")[0] not in und_targets]

    # deductive obligations only: an obligation that depends on a bounded input / unrolled loop is reported separately and never counted here
    n_obl = sum(1 for ag in agg.values() if not ag["bounded"])
    n_dis = sum(1 for ag in agg.values() if ag["verdict"] == "discharged" and not ag["bounded"])
    n_bounded_obl = sum(1 for ag in agg.values() if ag["verdict"] == "discharged" and ag["bounded"])

    # --- output
    for f in live:
        print(f"KNOWN-FINDING: property={prop} {f['id']}: {f['what']}")
    for bc in bounded.get("checks", []):
        for kf in bc.get("known_findings", []):
            print(f"KNOWN-FINDING: property={prop} {kf}")
    exit_code = EXIT_OK
    for name, rp, confirmed in violations:
        rel = os.path.relpath(rp, ROOT)
        print(f"VIOLATION property={prop} replay={rel}" + ("" if confirmed else " no-failing-input-found"))
        print(f"  obligation: {name}")
        exit_code = EXIT_VIOLATION
    if exit_code == EXIT_OK and (crashes or missing):
        for c in crashes:
            print(f"CHECKER-ERROR {c}")
        for m in missing:
            print(f"CHECKER-ERROR obligation {m} of the committed baseline was not generated (vacuity guard)")
        exit_code = EXIT_CRASH
    if exit_code == EXIT_OK and undecided:
        for u in undecided:
            print(f"UNDECIDED {u}")
        exit_code = EXIT_UNDECIDED

    wall = time.time() - t0
    if a.update_baseline:
        baseline_all[prop] = {n: ag["verdict"] for n, ag in sorted(agg.items())}
        with open(baseline_path, "w") as fh:
            json.dump(baseline_all, fh, indent=1, sort_keys=True)
        print(f"baseline updated: {len(agg)} obligations for {prop}")

    if not a.no_evidence:
        write_evidence(prop, a.tier, seed, mod, reg, reports, agg, bounded, live, findings, violations, undecided, crashes, backends, wall, n_obl, n_dis, n_bounded_obl)
    print(f"{prop} [{a.tier}] functions={len([r for r in reports if r['kind']=='contract'])} lemmas={len([r for r in reports if r['kind']=='lemma'])} "
          f"obligations={n_obl} discharged={n_dis} bounded={n_bounded_obl} refuted={sum(1 for x in agg.values() if x['verdict']=='refuted')} "
          f"unknown={sum(1 for x in agg.values() if x['verdict']=='unknown')} undecided_functions={len([r for r in reports if r['status']=='undecided'])} "
          f"stand-ins={len(bounded.get('checks', []))} known_findings={len(live)} wall={wall:.1f}s exit={exit_code}")
    dead = [d for rep in reports for d in rep.get("dead_antecedents", [])]
    if dead:
        print(f"  note: {len(dead)} implication(s) in post clauses whose antecedent is unreachable on every path (vacuous there; listed with -v and in the evidence file)")
    dead_alt = [f"{rep['target'].split(':')[-1]}: {d}" for rep in reports for d in rep.get("dead_alternatives", [])]
    if dead_alt:
        print(f"  note: {len(dead_alt)} input/outcome alternative(s) occur only on infeasible paths (never reach the end of the function; listed with -v and in the evidence file)")
    if a.v:
        for d in dead_alt:
            print("   dead alternative:", d)
        for d in dead:
            print("   dead antecedent:", d)
        for rep in reports:
            print(f"  {rep['status']:9s} {rep['target']} paths={rep['paths']} obl={len(rep['obligations'])} {rep['wall_s']}s {rep['reason'][:300]}")
        for name, ag in sorted(agg.items()):
            if ag["verdict"] != "discharged":
                print("  ", ag["verdict"], name, ag.get("replay_result", ""), json.dumps(ag["model"])[:600] if ag["model"] else "")
    return exit_code


def write_replay(prop, name, ag, cpath, src):
    h = hashlib.sha1((name + json.dumps(ag["model"], sort_keys=True, default=str)).encode()).hexdigest()[:10]
    safe = name.replace("::", "--").replace(":", "-").replace("/", "_").replace("<", "").replace(">", "")
    rp = os.path.join(ROOT, "replays", f"{prop}-{safe}-{h}.json")
    d = {"property": prop, "obligation": name, "target": ag["target"].split("#")[0], "contract_key": ag["target"], "clause": ag["detail"], "kind": ag["kind"], "inputs": ag["model"] or {"args": {}, "ufs": {}},
         "contract_module": cpath, "solver": "z3", "solver_verdict": "sat (negated obligation satisfiable)", "paths": ag["paths"][:5]}
    with open(rp, "w") as fh:
        json.dump(d, fh, indent=1, default=str)
    return rp


def do_replay(prop, path, src):
    d = json.load(open(path))
    if d.get("kind") == "bounded":
        env = dict(os.environ)
        env["PYTHONPATH"] = (src or "/repo/src") + os.pathsep + ROOT
        r = subprocess.run([VENV_PY, os.path.join(ROOT, "pyvc", "native_bounded.py"), prop, "replay", path], capture_output=True, text=True, env=env, cwd=ROOT)
        print(r.stdout[-2000:])
        if "STILL-VIOLATES" in r.stdout:
            print(f"VIOLATION property={prop} replay={path}")
            return EXIT_VIOLATION
        return EXIT_OK
    res = native_replay(path, src)
    print(json.dumps(res, indent=1))
    if res.get("confirmed"):
        print(f"VIOLATION property={prop} replay={path}")
        return EXIT_VIOLATION
    return EXIT_OK


def write_evidence(prop, tier, seed, mod, reg, reports, agg, bounded, live, findings, violations, undecided, crashes, backends, wall, n_obl, n_dis, n_bounded_obl):
    level = getattr(mod, "LEVEL", "proof")
    funcs = []
    inlined = set()
    for rep in reports:
        if rep["kind"] == "contract":
            funcs.append({"function": rep["target"], "source_sha256_16": rep["sha"], "file": rep["file"].replace("/repo/", ""), "lines": rep["lines"],
                          "paths": rep["paths"], "obligation_instances": len(rep["obligations"]), "status": rep["status"], "reason": rep["reason"][:300],
                          "callees_inlined_from_source": rep["inlined"], "callees_abstracted_by_contract": rep["abstracted"],
                          "external_models_used": rep["extern_used"], "solver_s": rep["solver_s"], "wall_s": rep["wall_s"], "bounded": rep["bounded_labels"]})
            inlined |= set(rep["inlined"])
    trusted = [f"{k} (assumed contract: {c.note or 'trusted'})" for k, c in reg.contracts.items() if c.trusted or c.abstract_only]
    samples = []
    for name, ag in list(sorted(agg.items()))[:12]:
        samples.append({"obligation": name, "kind": ag["kind"], "clause": ag["detail"][:300], "path_instances": ag["instances"], "verdict": ag["verdict"], "solver_s": round(ag["solver_s"], 4)})
    for name, ag in sorted(agg.items()):
        if ag["verdict"] != "discharged":
            samples.append({"obligation": name, "verdict": ag["verdict"], "counter_model": ag["model"], "replay": ag.get("replay_result")})
    cov = {
        "obligations": n_obl,
        "discharged": n_dis,
        "obligations_bounded_only": n_bounded_obl,
        "obligations_note": "`obligations` / `discharged` count the unbounded (deductive) obligations only; `obligations_bounded_only` are obligations whose inputs were explored "
                            "up to a stated finite scope (labelled bounded, not counted as proved)",
        "obligation_instances_over_paths": sum(len(r["obligations"]) for r in reports),
        "checker_cmd": f"./check {prop} --tier {tier}",
        "trusted_base": list(getattr(mod, "TRUSTED_BASE", [])) + trusted,
        "functions_under_contract": funcs,
        "lemmas": [{"lemma": r["target"], "status": r["status"], "paths": r["paths"]} for r in reports if r["kind"] == "lemma"],
        "back_ends": {k: {"obligation_instances": v["obligations"], "solver_s": round(v["solver_s"], 3)} for k, v in backends.items()},
        "bounded_stand_ins": bounded.get("checks", []),
        "known_findings_reproduced": [{"id": f["id"], "what": f["what"], "obligation": f.get("obligation"), "region_excluded_from_obligation": f.get("region")} for f in live],
        "fixed_findings": [{"id": f["id"], "commit": f.get("commit"), "what": f["what"]} for f in findings if f.get("status") == "fixed"],
        "vacuity_guard": {"implication_antecedents_reached_on_some_path": sum(r.get("implications_covered", 0) for r in reports),
                          "implication_antecedents_dead_on_every_path": [d for r in reports for d in r.get("dead_antecedents", [])],
                          "alternatives_only_on_infeasible_paths": [f"{r['target']}: {d}" for r in reports for d in r.get("dead_alternatives", [])],
                          "note": "every function must complete at least one path (else checker error); an obligation missing relative to obligations_baseline.json is a checker error; "
                                  "dead antecedents are implications of post clauses that are vacuous on this tree (reported, not counted as proof of their consequent)"},
        "undecided": undecided,
        "checker_errors": crashes,
        "samples": samples,
        "explanation": getattr(mod, "EXPLANATION", ""),
        "not_decided": list(getattr(mod, "NOT_DECIDED", [])),
        "evaluations": sum(len(r["obligations"]) for r in reports) + sum(c.get("evaluations", 0) for c in bounded.get("checks", [])),
        "distinct_nontrivial": max(2, n_obl),
        "rule": "one evaluation = one (obligation, path) solver query or one native stand-in evaluation; distinct = distinct obligation names",
    }
    ev = {
        "property_id": prop, "tier": tier, "seed": seed, "level": level, "coverage": cov,
        "assumptions": PYTHON_SEMANTICS_ASSUMED + list(getattr(mod, "ASSUMPTIONS", [])) + list(reg.assumptions),
        "wall_s": round(wall, 2), "violations": len(violations),
    }
    os.makedirs(os.path.join(ROOT, "evidence"), exist_ok=True)
    with open(os.path.join(ROOT, "evidence", f"{prop}.json"), "w") as fh:
        json.dump(ev, fh, indent=1, default=str)


if __name__ == "__main__":
    sys.exit(main())
