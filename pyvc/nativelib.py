"""Native (CPython, /venv) side: decode concretized inputs, call the REAL function, evaluate the SAME clause text.

Runs under /venv/bin/python (no z3 there): contract modules are imported with a stub `z3` module.
"""
from __future__ import annotations

import copy
import importlib
import importlib.util
import os
import sys
import types
from fractions import Fraction


def install_z3_stub():
    try:
        import z3  # noqa: F401

        return
    except ImportError:
        pass

    class _Any:
        def __init__(self, *a, **k):
            pass

        def __call__(self, *a, **k):
            return _Any()

        def __getattr__(self, n):
            return _Any()

    m = types.ModuleType("z3")
    m.__getattr__ = lambda n: _Any()  # type: ignore
    sys.modules["z3"] = m


def load_contract_module(path):
    install_z3_stub()
    sys.path.insert(0, os.path.dirname(os.path.dirname(os.path.abspath(path))))
    spec = importlib.util.spec_from_file_location("contract_mod_" + os.path.basename(path).replace(".py", ""), path)
    mod = importlib.util.module_from_spec(spec)
    spec.loader.exec_module(mod)
    return mod


def resolve(qual):
    modname, _, path = qual.partition(":")
    obj = importlib.import_module(modname)
    for part in path.split("."):
        if part == "<locals>":
            raise LookupError("nested function")
        obj = getattr(obj, part)
    return obj


class Stub:
    """Native stand-in for an opaque reference; methods answer from the model's function tables."""

    def __init__(self, sid, sort, cls, ufs, opaque_classes):
        object.__setattr__(self, "_sid", sid)
        object.__setattr__(self, "_sort", sort)
        object.__setattr__(self, "_cls", cls)
        object.__setattr__(self, "_ufs", ufs)
        object.__setattr__(self, "_oc", opaque_classes)
        object.__setattr__(self, "_attrs", {})

    def __repr__(self):
        return f"<Stub {self._sort} {self._sid}>"

    def __eq__(self, other):
        return isinstance(other, Stub) and other._sid == self._sid

    def __hash__(self):
        return hash(self._sid)

    def __setattr__(self, k, v):
        self._attrs[k] = v

    def __getattr__(self, name):
        if name.startswith("__") and name.endswith("__"):
            raise AttributeError(name)
        attrs = object.__getattribute__(self, "_attrs")
        if name in attrs:
            return attrs[name]
        cls = self._oc.get(self._cls, self._cls)
        key = f"pure:{cls}.{name}"
        table = self._ufs.get(key)
        if table is None:
            q = CALLS.get(f"{cls}.{name}")
            if q is not None:
                kindattr = ATTR_KINDS.get(f"{cls}.{name}")
                if kindattr == "attribute":
                    return pop_call(f"{cls}.{name}")
                return lambda *a, **k: pop_call(f"{cls}.{name}", (self,) + a, k)
            raise AttributeError(f"stub {self._sort} has no model for {name}")
        if ATTR_KINDS.get(f"{cls}.{name}") == "attribute":
            ids = [self._sid]
            for row_args, val in table["rows"]:
                if row_args == ids:
                    return _wrap_val(val, self)
            return _wrap_val(table["else"], self)

        def method(*args, **kw):
            ids = [self._sid] + [_idof(a) for a in args] + [_idof(v) for _, v in sorted(kw.items())]
            for row_args, val in table["rows"]:
                if row_args == ids:
                    return _parse_val(val)
            return _parse_val(table["else"])

        return method


def _idof(a):
    if isinstance(a, Stub):
        return a._sid
    if isinstance(a, bool):
        return "True" if a else "False"
    if isinstance(a, str):
        return '"' + a + '"'
    return str(a)


def _parse_val(s):
    if s in ("True", "true"):
        return True
    if s in ("False", "false"):
        return False
    if s is None:
        return None
    try:
        return int(s)
    except (TypeError, ValueError):
        pass
    if isinstance(s, str) and s.startswith('"') and s.endswith('"'):
        return s[1:-1]
    return s


CALLS = {}  # target -> list of pending results (native stubs for abstracted callees)
ATTR_KINDS = {}
GHOST = {}
EFFECTS = {}  # target -> {ghost name: clause}
CTX = {}


ARG_NAMES = {}  # target -> parameter names of the contract (to bind the stub's arguments for effect clauses)
HELPERS = {}


def pop_call(target, args=(), kwargs=None):
    q = CALLS.get(target) or []
    if not q:
        raise Undecodable(f"replay: more calls of {target} than in the model path")
    item = q.pop(0)
    if item["raised"]:
        import builtins

        exc = getattr(builtins, item["raised"], None)
        if exc is None:
            raise Undecodable(f"cannot raise {item['raised']} natively")
        raise exc()
    res = decode(item["result"], CTX)
    env = dict(HELPERS)
    names = ARG_NAMES.get(target, [])
    for n, a in zip(names, args):
        env[n] = a
    env.update(kwargs or {})
    env["result"] = res
    env["raised"] = None
    for g, cl in EFFECTS.get(target, {}).items():
        try:
            GHOST[g] = eval_clause(cl, env, {})
        except Exception:  # an effect that cannot be evaluated natively leaves the ghost unchanged (the replay then cannot confirm)
            GHOST.setdefault("__effect_errors__", []).append(g)
    return res


def _wrap_val(val, stub):
    v = _parse_val(val)
    if isinstance(v, str) and "!val!" in v:
        sort = v.split("!val!")[0]
        key = (sort, v)
        if key not in CTX.get("stubs", {}):
            CTX["stubs"][key] = Stub(v, sort, sort, stub._ufs, stub._oc)
        return CTX["stubs"][key]
    return v


def uf_call(name, *args, default=None):
    """Value of an uninterpreted function of the model at the given (native) arguments; `default(*args)` when the model has no table for it."""
    table = (CTX.get("ufs") or {}).get(name)
    if table is None or (not table["rows"] and table["else"] is None):
        if default is None:
            raise Undecodable(f"no model for {name}")
        return default(*args)
    ids = [_idof(a) for a in args]
    for row_args, val in table["rows"]:
        if [_unq(r) for r in row_args] == [_unq(i) for i in ids]:
            return _parse_val(val)
    return _parse_val(table["else"])


def _unq(s):
    s = str(s)
    return s[1:-1] if len(s) >= 2 and s[0] == '"' and s[-1] == '"' else s


class Undecodable(Exception):
    pass


def decode(v, ctx):
    if v is None or isinstance(v, (bool, int, str)):
        return v
    if isinstance(v, list):
        return [decode(x, ctx) for x in v]
    if isinstance(v, dict):
        t = v.get("__t")
        if t == "float":
            return float(v["v"])
        if t == "real":
            fr = Fraction(int(v["num"]), int(v["den"]))
            return float(fr) if fr.denominator != 1 else float(fr.numerator)
        if t == "bytes":
            return v["v"].encode("latin-1")
        if t == "tuple":
            return tuple(decode(x, ctx) for x in v["v"])
        if t == "set":
            return set(decode(x, ctx) for x in v["v"])
        if t == "dict":
            return {k: decode(x, ctx) for k, x in v["v"].items()}
        if t == "dictitems":
            return {decode(k, ctx): decode(x, ctx) for k, x in v["v"]}
        if t == "seq":
            if v["len"] > len(v["v"]):
                raise Undecodable("sequence longer than the replay cap")
            items = [decode(x, ctx) for x in v["v"]]
            if v["kind"] == "set":
                return set(items)
            if v["kind"] == "tuple":
                return tuple(items)
            return items
        if t == "global":
            return resolve(v["qual"])
        if t == "enum":
            return getattr(resolve(v["cls"]), v["name"])
        if t == "class":
            return resolve(v["cls"])
        if t == "obj":
            if v["cls"].startswith("spec:"):
                # a nominal object of the contract (no repository class): attributes only
                ns = types.SimpleNamespace()
                for k, x in v["fields"].items():
                    setattr(ns, k, decode(x, ctx))
                return ns
            cls = resolve(v["cls"])
            if not isinstance(cls, type):
                # a factory function of the standard library (threading.Lock, ...): build the real thing
                o = cls()
                for k, x in v["fields"].items():
                    try:
                        object.__setattr__(o, k, decode(x, ctx))
                    except (AttributeError, TypeError):
                        pass
                return o
            props = [k for k in v["fields"] if isinstance(getattr(cls, k, None), property) and getattr(cls, k).fset is None]
            if props:
                # read-only properties given a value by the contract: a subclass in which they are plain attributes
                cls = type(cls.__name__, (cls,), {k: None for k in props})
            try:
                o = object.__new__(cls)
            except TypeError:
                o = cls.__new__(cls)
            for k, x in v["fields"].items():
                object.__setattr__(o, k, decode(x, ctx))
            return o
        if t == "opaque":
            fac = ctx.get("opaque_factories", {}).get(v["sort"])
            key = (v["sort"], v["id"])
            if key not in ctx["stubs"]:
                if fac is not None:
                    ctx["stubs"][key] = fac(v["id"], ctx)
                else:
                    ctx["stubs"][key] = Stub(v["id"], v["sort"], v["cls"], ctx["ufs"], ctx.get("opaque_classes", {}))
            return ctx["stubs"][key]
        if t == "callable":
            table = v["table"]

            def fn(*args, **kw):
                ids = [_idof(a) for a in args] + [_idof(x) for _, x in sorted(kw.items())]
                for row_args, val in table["rows"]:
                    if row_args == ids:
                        return _parse_val(val)
                return _parse_val(table["else"])

            fn.__name__ = v["name"]
            return fn
        raise Undecodable(f"cannot decode {t}")
    raise Undecodable(f"cannot decode {v!r}")


# ---------------------------------------------------------------- native clause evaluation
def implies(a, b):
    return (not a) or bool(b)


def iff(a, b):
    return bool(a) == bool(b)


def forall(lo, hi, f):
    return all(f(i) for i in range(lo, hi))


def exists(lo, hi, f):
    return any(f(i) for i in range(lo, hi))


def length(xs):
    return len(xs)


def elem(xs, i):
    if isinstance(xs, (set, frozenset)):
        return sorted(xs, key=repr)[i]
    return xs[i]


def ite(c, a, b):
    return a if c else b


def is_instance(v, name):
    return any(c.__name__ == name for c in type(v).__mro__)


def ghost(name):
    return GHOST.get(name)


def upper(s):
    return s.upper()


def lower(s):
    return s.lower()


NATIVE_HELPERS = {"ghost": ghost, "upper": upper, "lower": lower, "implies": implies, "iff": iff, "forall": forall, "exists": exists, "length": length, "elem": elem, "ite": ite,
                  "is_instance": is_instance}


class _ImpliesRewriter:
    """`implies(a, b)` must not evaluate b when a is false (b may be undefined there): rewrite to `(not a) or b`."""


def rewrite_clause(src):
    import ast

    tree = ast.parse(src.strip(), mode="eval")

    class R(ast.NodeTransformer):
        def visit_Call(self, node):
            self.generic_visit(node)
            if isinstance(node.func, ast.Name) and node.func.id == "implies" and len(node.args) == 2:
                return ast.BoolOp(op=ast.Or(), values=[ast.UnaryOp(op=ast.Not(), operand=node.args[0]), node.args[1]])
            if isinstance(node.func, ast.Name) and node.func.id == "ite" and len(node.args) == 3:
                return ast.IfExp(test=node.args[0], body=node.args[1], orelse=node.args[2])
            return node

    tree = ast.fix_missing_locations(R().visit(tree))
    return compile(tree, "<clause>", "eval")


def collect_olds(clauses):
    import ast

    out = {}
    for cl in clauses:
        for n in ast.walk(ast.parse(cl.strip(), mode="eval")):
            if isinstance(n, ast.Call) and isinstance(n.func, ast.Name) and n.func.id == "old":
                out[ast.dump(n.args[0])] = ast.unparse(n.args[0])
    return out


def eval_clause(src, env, olds_values):
    import ast

    def old(_ignored=None):  # replaced below
        raise RuntimeError

    # substitute old(expr) by a lookup of the captured value
    tree = ast.parse(src.strip(), mode="eval")

    class R(ast.NodeTransformer):
        def visit_Call(self, node):
            if isinstance(node.func, ast.Name) and node.func.id == "old":
                key = ast.dump(node.args[0])
                return ast.Subscript(value=ast.Name(id="__olds__", ctx=ast.Load()), slice=ast.Constant(value=key), ctx=ast.Load())
            self.generic_visit(node)
            if isinstance(node.func, ast.Name) and node.func.id == "implies" and len(node.args) == 2:
                return ast.BoolOp(op=ast.Or(), values=[ast.UnaryOp(op=ast.Not(), operand=node.args[0]), node.args[1]])
            if isinstance(node.func, ast.Name) and node.func.id == "ite" and len(node.args) == 3:
                return ast.IfExp(test=node.args[0], body=node.args[1], orelse=node.args[2])
            return node

    tree = ast.fix_missing_locations(R().visit(tree))
    g = dict(NATIVE_HELPERS)
    g.update(env)
    g["__olds__"] = olds_values
    return eval(compile(tree, "<clause>", "eval"), g)


def capture_olds(clauses, env):
    vals = {}
    for key, src in collect_olds(clauses).items():
        g = dict(NATIVE_HELPERS)
        g.update(env)
        v = eval(src, g)
        try:
            v = copy.deepcopy(v)
        except Exception:
            pass
        vals[key] = v
    return vals
