"""Extraction of functions / classes from /repo's current working tree (ast), every run."""
from __future__ import annotations

import ast
import hashlib
import os

from . import SRC
from .path import OutOfSubset
from .values import VClass, VFunc, Extern

_MODULES: dict[str, "ModuleInfo"] = {}

# decorators whose meaning is given by a table (DESIGN 1.2); anything else => out of subset
KNOWN_DECORATORS = {
    "dataclass", "property", "staticmethod", "classmethod", "wraps", "contextmanager", "lru_cache",
    "cached_property", "overload", "composite", "st.composite", "check", "schemathesis.check",
    "unique", "enum.unique", "total_ordering", "functools.lru_cache", "functools.wraps",
}


def src_root():
    return os.environ.get("PYVC_SRC", SRC)


def module_path(name: str) -> str | None:
    base = os.path.join(src_root(), *name.split("."))
    if os.path.isfile(base + ".py"):
        return base + ".py"
    if os.path.isfile(os.path.join(base, "__init__.py")):
        return os.path.join(base, "__init__.py")
    return None


def load_module(name: str) -> "ModuleInfo":
    if name not in _MODULES:
        p = module_path(name)
        if p is None:
            raise OutOfSubset(f"module {name} not found under {src_root()}")
        _MODULES[name] = ModuleInfo(name, p)
    return _MODULES[name]


def reset_cache():
    _MODULES.clear()


def deco_name(d) -> str:
    if isinstance(d, ast.Call):
        d = d.func
    if isinstance(d, ast.Name):
        return d.id
    if isinstance(d, ast.Attribute):
        return f"{deco_name(d.value)}.{d.attr}"
    return "?"


class ModuleInfo:
    def __init__(self, name: str, path: str):
        self.name = name
        self.path = path
        with open(path, encoding="utf-8") as f:
            self.source = f.read()
        self.tree = ast.parse(self.source)
        self.is_package = path.endswith("__init__.py")
        self.defs: dict[str, ast.AST] = {}  # name -> node (FunctionDef / ClassDef / expr for assignments)
        self.imports: dict[str, tuple] = {}  # name -> ("module", modname) | ("from", modname, attr)
        self.cache: dict[str, object] = {}
        self._scan(self.tree.body)

    def _scan(self, body):
        for node in body:
            if isinstance(node, (ast.FunctionDef, ast.AsyncFunctionDef, ast.ClassDef)):
                self.defs[node.name] = node
            elif isinstance(node, ast.Assign):
                for t in node.targets:
                    if isinstance(t, ast.Name):
                        self.defs[t.id] = node.value
                    elif isinstance(t, ast.Tuple) and isinstance(node.value, ast.Tuple) and len(t.elts) == len(node.value.elts):
                        for a, b in zip(t.elts, node.value.elts):
                            if isinstance(a, ast.Name):
                                self.defs[a.id] = b
            elif isinstance(node, ast.AnnAssign) and isinstance(node.target, ast.Name) and node.value is not None:
                self.defs[node.target.id] = node.value
            elif isinstance(node, ast.Import):
                for a in node.names:
                    nm = a.asname or a.name.split(".")[0]
                    self.imports[nm] = ("module", a.name if a.asname else a.name.split(".")[0])
            elif isinstance(node, ast.ImportFrom):
                mod = self._abs(node.module, node.level)
                for a in node.names:
                    self.imports[a.asname or a.name] = ("from", mod, a.name)
            elif isinstance(node, ast.If):
                # `if TYPE_CHECKING:` and version switches: scan both arms (first definition wins later ones)
                self._scan(node.body)
                self._scan(node.orelse)
            elif isinstance(node, ast.Try):
                self._scan(node.body)
                for h in node.handlers:
                    pass

    def _abs(self, module, level):
        if not level:
            return module or ""
        parts = self.name.split(".")
        if not self.is_package:
            parts = parts[:-1]
        parts = parts[: len(parts) - (level - 1)]
        return ".".join(parts + ([module] if module else []))

    def segment(self, node) -> str:
        return ast.get_source_segment(self.source, node) or ""

    def sha(self, node) -> str:
        return hashlib.sha256(self.segment(node).encode()).hexdigest()[:16]


def find_def(qual: str):
    """`pkg.mod:Class.meth` / `pkg.mod:func` / `pkg.mod:outer.<locals>.inner` -> (ModuleInfo, node, owner_class_node|None, enclosing nodes)."""
    modname, _, path = qual.partition(":")
    mod = load_module(modname)
    parts = [p for p in path.split(".") if p != "<locals>"]
    node = None
    body = mod.tree.body
    owner = None
    chain = []
    for i, part in enumerate(parts):
        found = None
        for n in _iter_defs(body):
            if isinstance(n, (ast.FunctionDef, ast.AsyncFunctionDef, ast.ClassDef)) and n.name == part:
                found = n
        if found is None:
            raise OutOfSubset(f"definition {qual} not found (at {part})")
        if i < len(parts) - 1:
            chain.append(found)
            owner = found if isinstance(found, ast.ClassDef) else None
        node = found
        body = found.body
    return mod, node, owner, chain


def _iter_defs(body):
    """Definitions in a body, looking through if/try/with/for blocks (last definition wins)."""
    for n in body:
        if isinstance(n, (ast.FunctionDef, ast.AsyncFunctionDef, ast.ClassDef)):
            yield n
        elif isinstance(n, ast.If):
            yield from _iter_defs(n.body)
            yield from _iter_defs(n.orelse)
        elif isinstance(n, (ast.Try,)):
            yield from _iter_defs(n.body)
            yield from _iter_defs(n.orelse)
            yield from _iter_defs(n.finalbody)
            for h in n.handlers:
                yield from _iter_defs(h.body)
        elif isinstance(n, (ast.With, ast.For, ast.While)):
            yield from _iter_defs(n.body)
