"""Turn a z3 model into concrete (JSON-able) inputs for native replay."""
from __future__ import annotations

import z3

from .values import Sym, SInt, SBool, SStr, SReal, Opaque, SymSeq, VObj, VClass, VFunc, VBound, Unknown

MAX_SEQ = 6


def _ev(m, z):
    return m.eval(z, model_completion=True)


def conc(v, m, depth=0):
    if depth > 12:
        return {"__t": "deep"}
    if v is None or isinstance(v, (bool, int, str)):
        return v
    if isinstance(v, float):
        return {"__t": "float", "v": repr(v)}
    if isinstance(v, bytes):
        return {"__t": "bytes", "v": v.decode("latin-1")}
    if isinstance(v, SBool):
        return bool(z3.is_true(_ev(m, v.z)))
    if isinstance(v, SInt):
        r = _ev(m, v.z)
        return r.as_long() if z3.is_int_value(r) else {"__t": "expr", "v": str(r)}
    if isinstance(v, SStr):
        r = _ev(m, v.z)
        try:
            s = r.as_string()
            return _unescape(s)
        except Exception:
            return {"__t": "expr", "v": str(r)}
    if isinstance(v, SReal):
        r = _ev(m, v.z)
        try:
            fr = r.as_fraction()
            return {"__t": "real", "num": str(fr.numerator), "den": str(fr.denominator)}
        except Exception:
            return {"__t": "expr", "v": str(r)}
    if isinstance(v, Opaque):
        return {"__t": "opaque", "sort": v.sort, "cls": v.cls, "id": str(_ev(m, v.z))}
    if isinstance(v, tuple):
        return {"__t": "tuple", "v": [conc(x, m, depth + 1) for x in v]}
    if isinstance(v, list):
        return [conc(x, m, depth + 1) for x in v]
    if isinstance(v, (set, frozenset)):
        return {"__t": "set", "v": [conc(x, m, depth + 1) for x in sorted(v, key=repr)]}
    if isinstance(v, dict):
        if all(isinstance(k, str) for k in v):
            return {"__t": "dict", "v": {k: conc(x, m, depth + 1) for k, x in v.items()}}
        return {"__t": "dictitems", "v": [[conc(k, m, depth + 1), conc(x, m, depth + 1)] for k, x in v.items()]}
    if isinstance(v, SymSeq):
        n = _ev(m, v.n)
        n = n.as_long() if z3.is_int_value(n) else 0
        k = min(n, MAX_SEQ)
        return {"__t": "seq", "kind": v.kind, "len": n, "v": [conc(v.elem(z3.IntVal(i)), m, depth + 1) for i in range(k)]}
    if isinstance(v, VObj):
        if id(v) in GLOBAL_IDS and GLOBAL_IDS[id(v)][0] is v:
            return {"__t": "global", "qual": GLOBAL_IDS[id(v)][1]}
        if v.cls.is_enum:
            return {"__t": "enum", "cls": v.cls.qualname, "name": v.fields.get("name")}
        return {"__t": "obj", "cls": v.cls.qualname, "fields": {k: conc(x, m, depth + 1) for k, x in v.fields.items() if not k.startswith("__")}}
    if isinstance(v, VClass):
        return {"__t": "class", "cls": v.qualname}
    if isinstance(v, (VFunc, VBound)):
        return {"__t": "func", "name": repr(v)}
    from .interp import SpecCallable

    if isinstance(v, SpecCallable):
        return {"__t": "callable", "name": v.name, "table": uf_table(m, f"call:{v.name}")}
    if isinstance(v, Unknown):
        return {"__t": "unknown"}
    return {"__t": "repr", "v": repr(v)}


GLOBAL_IDS = {}  # id(VObj) -> (VObj, "module:NAME") for values made by the Global descriptor


def _unescape(s: str) -> str:
    # z3 prints non-printable characters as \u{XX}
    import re

    return re.sub(r"\\u\{([0-9a-fA-F]+)\}", lambda mo: chr(int(mo.group(1), 16)), s)


def uf_table(m, name):
    for d in m.decls():
        if d.name() == name:
            fi = m[d]
            if isinstance(fi, z3.FuncInterp):
                rows = []
                for i in range(fi.num_entries()):
                    e = fi.entry(i)
                    rows.append([[str(e.arg_value(k)) for k in range(e.num_args())], str(e.value())])
                return {"rows": rows, "else": str(fi.else_value())}
            return {"rows": [], "else": str(fi)}
    return {"rows": [], "else": None}


def concretize_inputs(args: dict, m, abstract_log=()):
    out = {"args": {}, "ufs": {}, "calls": []}
    for fq, res, raised in abstract_log:
        try:
            out["calls"].append({"target": fq, "result": conc(res, m), "raised": raised})
        except Exception as e:
            out["calls"].append({"target": fq, "result": {"__t": "error", "v": str(e)}, "raised": raised})
    for k, v in args.items():
        try:
            out["args"][k] = conc(v, m)
        except Exception as e:  # never let model printing break a verdict
            out["args"][k] = {"__t": "error", "v": f"{type(e).__name__}: {e}"}
    try:
        for d in m.decls():
            nm = d.name()
            if nm.startswith(("pure:", "call:", "uf:")):
                out["ufs"][nm] = uf_table(m, nm)
    except Exception:
        pass
    return out


def snapshot(v, memo=None):
    """Structural copy of an input value tree (so that the pre-state survives mutation by the function)."""
    if memo is None:
        memo = {}
    if id(v) in memo:
        return memo[id(v)]
    if isinstance(v, list):
        out = []
        memo[id(v)] = out
        out.extend(snapshot(x, memo) for x in v)
        return out
    if isinstance(v, dict):
        out = {}
        memo[id(v)] = out
        for k, x in v.items():
            out[k] = snapshot(x, memo)
        return out
    if isinstance(v, tuple):
        return tuple(snapshot(x, memo) for x in v)
    if isinstance(v, set):
        return set(v)
    if isinstance(v, VObj) and id(v) in GLOBAL_IDS and GLOBAL_IDS[id(v)][0] is v:
        return v
    if isinstance(v, VObj) and not v.cls.is_enum:
        o = VObj(v.cls, {})
        memo[id(v)] = o
        for k, x in v.fields.items():
            o.fields[k] = snapshot(x, memo)
        return o
    return v
