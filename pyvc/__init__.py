"""pyvc - verification-condition generator for a subset of Python, written for /verif.

Reads the real functions from /repo's working tree on every run (ast), executes them
symbolically path by path (re-execution with a decision schedule), abstracts callees by
their sidecar contracts and discharges every obligation with z3 (cvc5 as second solver).
See /verif/DESIGN.md Part 1.
"""

REPO = "/repo"
SRC = REPO + "/src"
