import json, sys, xml.etree.ElementTree as ET
base = json.load(open("/root/.vp/BASELINE.json"))
stable = set(base["stable_pass"])
tree = ET.parse(sys.argv[1])
passed = set(); failed = set()
for tc in tree.iter("testcase"):
    tid = f"{tc.get('classname')}::{tc.get('name')}"
    bad = any(ch.tag in ("failure", "error", "skipped") for ch in tc)
    (failed if bad else passed).add(tid)
missing = sorted(stable - passed)
print(f"stable_pass={len(stable)} passed_now={len(passed)} stable_not_passing={len(missing)}")
for m in missing[:40]:
    print("  NOT PASSING:", m)
sys.exit(1 if missing else 0)
