"""Self-test corpus: property-breaking edits (expect "detect") and harmless edits (expect "quiet") of /repo/src.

Each entry: (property, expectation, file under src/schemathesis, old text, new text, note). `old` must occur exactly once.
Used by tools/selftest.py; every edit is applied to a scratch copy of /repo/src (never to /repo).
"""
UNIT = "engine/phases/unit/_executor.py"
UNITI = "engine/phases/unit/__init__.py"
STATE = "engine/phases/stateful/_executor.py"
PAT = "specs/openapi/patterns.py"
COV = "generation/coverage.py"
CHK = "specs/openapi/checks.py"
HY = "specs/openapi/_hypothesis.py"
FIL = "filters.py"
GQL = "specs/graphql/schemas.py"

MUTANTS = [
    # ---- C01
    ("C01", "detect", PAT, "            max_repeat = min(max_repeat, max_length)", "            max_repeat = max(max_repeat, max_length)", "_build_size widens the repetition beyond maxLength"),
    ("C01", "detect", PAT, "            part_max = min(max_repeat, remaining_max)", "            part_max = max_repeat", "length distribution ignores the remaining maxLength"),
    ("C01", "detect", PAT, "    if minimum == maximum:\n        return f\"{{{minimum}}}\"", "    if minimum == maximum:\n        return f\"{{{minimum},}}\"", "_build_quantifier prints an open upper bound for an exact size"),
    ("C01", "quiet", PAT, "        min_repeat = max(min_repeat, min_length)", "        min_repeat = max(min_length, min_repeat)", "commuted max()"),
    ("C01", "detect", "specs/openapi/parameters.py", "        if parameter.is_required and name not in required:", "        if name not in required:", "optional parameters become required in the generated object"),
    ("C01", "detect", HY, "                prop.setdefault(\"minLength\", 1)", "                prop[\"minLength\"] = 1", "a declared minLength of a path parameter is overwritten"),
    # ---- C02
    ("C02", "detect", HY, "        return self.generator is not None and (self.location == \"body\" or self.value is not None)", "        return self.generator is not None", "is_generated ignores absent values"),
    ("C02", "detect", "specs/openapi/negative/mutations.py", "            k in (\"type\", \"properties\", \"items\", \"minItems\")", "            k in (\"type\", \"properties\", \"items\", \"minItems\", \"maxLength\")", "maxLength never negated"),
    ("C02", "detect", "specs/openapi/negative/mutations.py", "            if key in candidates or enabled_keywords.is_enabled(key):\n                is_negated = True", "            if key in candidates or enabled_keywords.is_enabled(key):\n                is_negated = False", "negation reported as failure"),
    # ---- C03
    ("C03", "detect", COV, "        if larger not in seen and (maximum is None or larger <= maximum):", "        if larger not in seen:", "near-boundary number above maximum is labelled positive"),
    ("C03", "detect", COV, "        if larger not in seen and (max_items is None or larger <= max_items):", "        if larger not in seen and (max_items is None or larger <= max_items + 1):", "array one item over maxItems labelled positive"),
    ("C03", "quiet", COV, "        if larger not in seen and (maximum is None or larger <= maximum):", "        if (maximum is None or larger <= maximum) and larger not in seen:", "commuted conjunction"),
    ("C03", "detect", COV, "                    next = value + 1\n", "                    next = value\n", "the 'greater than maximum' negative equals the maximum"),
    ("C03", "detect", COV, "                    next = value - 1\n", "                    next = value + 1\n", "the 'smaller than minimum' negative is above the minimum"),
    ("C03", "detect", COV, "                        min_length = max_length = value - 1\n", "                        min_length = max_length = value\n", "the 'smaller than minLength' string has exactly minLength characters"),
    # ---- C04
    ("C04", "detect", CHK, "    if response.status_code not in allowed_status_codes:", "    if response.status_code not in allowed_status_codes and response.status_code >= 500:", "undocumented 4xx accepted"),
    ("C04", "detect", CHK, "    if \"default\" in responses:\n        return None\n    allowed_status_codes", "    if \"default\" not in responses:\n        return None\n    allowed_status_codes", "default rule inverted"),
    ("C04", "detect", "specs/openapi/schemas.py", "        if matches_status_code(key, status_code):\n            return definition", "        if False:\n            return definition", "status code ranges ignored when selecting the definition (F04a regression)"),
    ("C04", "detect", "specs/openapi/schemas.py", "        if str(key) == str(status_code):", "        if key == status_code:", "exact code compared without str(): string keys never match"),
    ("C04", "detect", "specs/openapi/schemas.py", "            if expected == received:\n                return definition", "            if True:\n                return definition", "first documented media type always wins (F04b regression)"),
    ("C04", "detect", "specs/openapi/schemas.py", "definition, operation.definition.scope, content_types[0] if content_types else None", "definition, operation.definition.scope, None", "schema looked up without the response's Content-Type"),
    ("C04", "detect", "specs/openapi/schemas.py", "option = _find_media_type_definition(definition.get(\"content\", {}), content_type)", "option = _find_media_type_definition(definition.get(\"content\", {}), None)", "3.x schema lookup drops the content type"),
    ("C04", "quiet", "specs/openapi/schemas.py", "    return next(iter(content.values()), None)", "    for definition in content.values():\n        return definition\n    return None", "first documented media type written as a loop"),
    ("C04", "detect", CHK, "        if header.lower() not in response.headers and definition.get(case.operation.schema.header_required_field, False)", "        if header not in response.headers and definition.get(case.operation.schema.header_required_field, False)", "documented header names compared case-sensitively"),
    ("C04", "detect", CHK, "    if missing_headers:\n        formatted_headers", "    if len(missing_headers) > 1:\n        formatted_headers", "a single missing required header is not reported"),
    ("C04", "detect", "specs/openapi/schemas.py", "        definition = _find_response_definition(responses, response.status_code)\n        if definition is None:\n            return None\n        return self.resolver.resolve_in_scope", "        definition = _find_response_definition(responses, 200)\n        if definition is None:\n            return None\n        return self.resolver.resolve_in_scope", "headers / media types always taken from the 200 definition"),
    # ---- C05
    ("C05", "detect", UNIT, "    except (FailureGroup, Failure):\n        status = Status.FAILURE", "    except (FailureGroup, Failure):\n        status = Status.SUCCESS", "failure swallowed in run_test"),
    ("C05", "detect", UNIT, "        and ctx.config.execution.continue_on_failure\n", "        and not ctx.config.execution.continue_on_failure\n", "continue_on_failure inverted"),
    ("C05", "detect", UNIT, "    if invalid_headers:\n", "    if invalid_headers and status != Status.SUCCESS:\n", "invalid headers lost on success"),
    ("C05", "detect", UNIT, "        except (KeyboardInterrupt, Failure):", "        except KeyboardInterrupt:", "Failure no longer re-raised by the cache wrapper"),
    ("C05", "detect", STATE, "            suite_status = Status.ERROR\n", "            suite_status = Status.SUCCESS\n", "stateful error folded to success"),
    ("C06", "detect", "specs/openapi/_hypothesis.py", "            elif isinstance(sub_item, (dict, list)):\n                stack.append(sub_item)", "            elif isinstance(sub_item, dict):\n                stack.append(sub_item)", "lists nested in objects are not visited (F06b regression)"),
    ("C06", "detect", "specs/openapi/_hypothesis.py", "                item[key] = \"true\" if sub_item else \"false\"", "                item[key] = \"True\" if sub_item else \"False\"", "Python spelling of booleans"),
    ("C06", "detect", "specs/openapi/serialization.py", "        delimiter = \".\"\n", "        delimiter = \";\"\n", "label style explode delimiter"),
    ("C06", "detect", "specs/openapi/_hypothesis.py", "            elif value == \"..\":\n                parameters[key] = \"%2E%2E\"", "            elif value == \"..\":\n                parameters[key] = \"%2E\"", "'..' encoded as a single dot"),
    ("C06", "detect", "specs/openapi/serialization.py", "        if style == \"pipeDelimited\":\n            yield delimited(name, delimiter=\"|\")", "        if style == \"pipeDelimited\":\n            yield delimited(name, delimiter=\",\")", "pipeDelimited dispatched to the comma encoder"),
    ("C06", "detect", "specs/openapi/serialization.py", "            for func in reversed(functions):", "            for func in functions:", "conversions composed in the wrong order"),
    ("C05", "detect", "cli/commands/run/context.py", "            and event.status in (Status.FAILURE, Status.ERROR)", "            and event.status in (Status.FAILURE,)", "an errored phase leaves the exit code at 0"),
    ("C06", "detect", "transport/prepare.py", "        return unquote(urljoin(base_url, quote(path)))", "        return urljoin(base_url, quote(path))", "path values double-encoded on the wire"),
    ("C06", "detect", "transport/prepare.py", "        if not base_url.endswith(\"/\"):\n            base_url += \"/\"", "        pass", "last segment of the base path dropped when the base URL has no trailing slash"),
    ("C06", "detect", "transport/wsgi.py", "            \"query_string\": case.query,", "            \"query_string\": None,", "WSGI transport drops the query"),
    ("C06", "detect", "transport/requests.py", "                final_headers[\"Content-Type\"] = media_type", "                final_headers[\"Content-Type\"] = \"application/json\"", "Content-Type always application/json"),
    ("C06", "detect", "transport/requests.py", "            serializer = self._get_serializer(media_type)", "            serializer = self._get_serializer(\"application/json\")", "body always serialized as JSON"),
    # ---- C07
    ("C07", "detect", FIL, "return any(filter_.match(ctx) for filter_ in self._includes)", "return all(filter_.match(ctx) for filter_ in self._includes)", "includes combined with all"),
    ("C07", "detect", FIL, "        return all(matcher.match(ctx) for matcher in self.matchers)", "        return any(matcher.match(ctx) for matcher in self.matchers)", "matchers of one filter combined with any"),
    ("C07", "detect", FIL, "return any(entry == expected for entry in value)", "return all(entry == expected for entry in value)", "by_value on list attributes"),
    ("C07", "detect", FIL, "get(\"deprecated\") is True", "get(\"deprecated\")", "truthy deprecated"),
    ("C07", "detect", FIL, "        if not self._includes:", "        if self._includes:", "empty include set inverted"),
    ("C07", "detect", "cli/commands/run/filters.py", "        for method in self.include_method:\n            filter_set.include(method=method)", "        for method in self.include_method:\n            filter_set.include(path=method)", "--include-method values used as path filters"),
    ("C07", "detect", "cli/commands/run/filters.py", "        for tag in self.exclude_tag:\n            apply_exclude_filter(filter_set, \"tag\", tag=tag)", "        for tag in self.exclude_tag:\n            filter_set.include(tag=tag)", "--exclude-tag values included instead of excluded"),
    ("C07", "detect", "cli/commands/run/filters.py", "                path_regex=self.include_path_regex,", "                path_regex=self.include_name_regex,", "--include-path-regex replaced by the name regex"),
    # ---- C08
    ("C08", "detect", "specs/openapi/_cache.py", "            self._id_to_operation[operation_id] = idx", "            self._id_to_operation[operation_id] = idx + 1", "operationId index off by one"),
    ("C08", "detect", "specs/openapi/_cache.py", "        self._traversal_key_to_operation[traversal_key] = idx\n", "        self._traversal_key_to_operation = {traversal_key: idx}\n", "insert drops the other traversal keys"),
    ("C08", "detect", "specs/openapi/schemas.py", "                        statistic.operations.total += 1\n                        is_selected = not should_skip(path, method, definition)", "                        is_selected = not should_skip(path, method, definition)\n                        if is_selected:\n                            statistic.operations.total += 1", "total counts only the selected operations"),
    ("C08", "detect", "specs/openapi/schemas.py", "                    for method, entry in path_item.items():\n                        if method not in HTTP_METHODS:\n                            continue\n                        try:\n                            resolved = resolve_operation(entry)", "                    for method, entry in path_item.items():\n                        if method not in HTTP_METHODS:\n                            break\n                        try:\n                            resolved = resolve_operation(entry)", "a non-method key ends the enumeration of the path item"),
    ("C08", "detect", "specs/openapi/schemas.py", "        parameters = schema._collect_operation_parameters(self._path_item, resolved)\n        initialized = schema.make_operation(path, method, parameters, operation, resolved, scope)\n        cache.insert_operation(initialized, traversal_key=traversal_key, operation_id=resolved.get(\"operationId\"))", "        parameters = schema._collect_operation_parameters(self._path_item, resolved)\n        initialized = schema.make_operation(path, method, parameters, operation, resolved, scope)\n        cache.insert_operation(initialized, traversal_key=(scope, path, method.upper()), operation_id=resolved.get(\"operationId\"))", "operation cached under a different key than it is looked up with"),
    # ---- C09
    ("C09", "detect", "core/curl.py", "    if not verify:", "    if verify:", "--insecure inverted"),
    ("C09", "detect", "core/curl.py", "if key not in known_generated_headers and key in get_excluded_headers():", "if key in get_excluded_headers():", "generated headers dropped from the command"),
    ("C09", "detect", "generation/case.py", "            known_generated_headers=dict(self.headers or {}),", "            known_generated_headers={},", "generated headers not declared to the curl generator (they get filtered out)"),
    ("C09", "detect", "generation/case.py", "            verify=verify,\n            headers=dict(request_data.headers),", "            verify=True,\n            headers=dict(request_data.headers),", "--insecure never printed"),
    # ---- C10
    ("C10", "detect", "specs/openapi/expressions/nodes.py", "            \"query\": output.case.query,\n            \"path\": output.case.path_parameters,", "            \"query\": output.case.path_parameters,\n            \"path\": output.case.query,", "$request.query reads path parameters"),
    ("C10", "detect", "specs/openapi/stateful/__init__.py", "        return result.response.status_code in status_codes", "        return result.response.status_code not in status_codes", "link status filter inverted"),
    ("C10", "detect", "specs/openapi/stateful/__init__.py", "                    if isinstance(extracted.value, Ok) and extracted.value.ok() not in (None, UNRESOLVABLE)", "                    if isinstance(extracted.value, Ok) and extracted.value.ok() is not None", "unresolvable link parameters are passed on as values"),
    ("C10", "detect", "specs/openapi/stateful/__init__.py", "                    case.body = {**case.body, **new}", "                    case.body = {**new, **case.body}", "merge_body: generated values win over the link's"),
    ("C10", "detect", "specs/openapi/stateful/__init__.py", "        return result.response.status_code not in expanded_status_codes", "        return result.response.status_code in expanded_status_codes", "default link filter inverted"),
    # ---- C11
    ("C11", "detect", UNIT, "    yield scenario_finished(status)\n", "    pass\n", "scenario never closed"),
    ("C11", "detect", "engine/core.py", "        # Always finish\n        yield from self._finish(engine)\n", "        # Always finish\n        pass\n", "EngineFinished omitted on the normal path"),
    # ---- C12
    ("C12", "detect", UNIT, "            if ctx.has_to_stop:", "            if False and ctx.has_to_stop:", "stop request ignored before a request is sent"),
    ("C12", "detect", UNIT, "                    ctx.cache_outcome(case, exc)", "                    pass", "outcome cache not filled"),
    ("C12", "detect", "engine/phases/__init__.py", "return self.is_enabled and not ctx.has_to_stop", "return self.is_enabled and not ctx.is_interrupted", "phase runs although the failure limit was reached"),
    ("C12", "detect", STATE, "            if engine.has_to_stop:\n                raise KeyboardInterrupt\n            try:\n                if config.execution.unique_inputs:", "            try:\n                if config.execution.unique_inputs:", "stateful step sends although a stop was requested"),
    ("C12", "detect", STATE, "                    elif cached is None:\n                        return None\n                result = super().step(input)", "                result = super().step(input)", "stateful unique-inputs: an input seen passing is sent again"),
    # ---- C13
    ("C13", "detect", STATE, "            seed += 1\n", "            pass\n", "same seed for every suite"),
    ("C13", "detect", "generation/hypothesis/builder.py", "    if config.seed is not None:\n        hypothesis_test = hypothesis.seed(config.seed)(hypothesis_test)", "    if config.seed:\n        hypothesis_test = hypothesis.seed(config.seed)(hypothesis_test)", "seed 0 is not applied"),
    ("C13", "detect", "generation/hypothesis/builder.py", "                if getattr(config.settings, item) != getattr(default, item)\n", "                if item != \"max_examples\" and getattr(config.settings, item) != getattr(default, item)\n", "the user's max_examples is dropped in the settings merge"),
    ("C13", "detect", "generation/hypothesis/builder.py", "        phases = tuple(phase for phase in settings.phases if phase not in (Phase.reuse, Phase.generate))", "        phases = tuple(phase for phase in settings.phases if phase not in (Phase.reuse,))", "generate phase kept although fuzzing is off"),
    # ---- C14
    ("C14", "detect", "transport/prepare.py", "        final_headers.update(headers)", "        for k, v in headers.items(): final_headers.setdefault(k, v)", "explicit headers no longer win"),
    ("C14", "detect", "generation/hypothesis/builder.py", "            if container is None:\n                setattr(case, container_name, value)\n            else:\n                container.update(value)", "            if container is None:\n                setattr(case, container_name, value)", "coverage cases with a generated container lose the override"),
    ("C14", "detect", "generation/hypothesis/builder.py", "        auths.set_on_case(case, auth_context, auth_storage)\n        for container_name, value in overrides.items():", "        for container_name, value in overrides.items():", "coverage cases are sent without the configured auth"),
    ("C14", "detect", "engine/phases/unit/__init__.py", "        kwargs[\"headers\"] = {**headers, **kwargs.get(\"headers\", {})}", "        kwargs[\"headers\"] = headers", "header overrides dropped when custom headers are configured (F14a regression)"),
    # ---- C15
    ("C15", "detect", "core/output/sanitization.py", "            lower_key = key.lower()", "            lower_key = key", "case-sensitive key match"),
    ("C15", "detect", "core/output/sanitization.py", "if lower_key in config.keys_to_sanitize or any(", "if lower_key in config.keys_to_sanitize and any(", "marker rule conjoined"),
    # ---- C16
    ("C16", "detect", "cli/commands/run/handlers/junitxml.py", "ctx.statistic.failures.get(label, {}).values()", "ctx.statistic.failures[label].values()", "KeyError for a failure without grouped entries (F16c regression)"),
    # ---- C17
    ("C17", "quiet", "specs/openapi/examples.py", "                name: next(islice(cycle(parameter_variants), idx, None))", "                name: next(islice(cycle(parameter_variants), idx + 1, None))", "round-robin shifted by one: every example is still used verbatim (equivalent for C17)"),
    ("C17", "detect", "specs/openapi/examples.py", "                name: next(islice(cycle(parameter_variants), idx, None))", "                name: next(islice(cycle(parameter_variants), 0, None))", "always the first example of every parameter"),
    ("C17", "detect", "specs/openapi/examples.py", "                if isinstance(schema, dict) and parameter.examples_field in schema:\n                    for value in schema[parameter.examples_field]:", "                if isinstance(schema, dict) and parameter.examples_field in schema:\n                    for value in schema[parameter.examples_field][:1]:", "only the first schema-level example of a parameter is collected"),
    ("C17", "detect", "generation/hypothesis/builder.py", "            invalid_headers = dict(find_invalid_headers(example.headers))\n            if invalid_headers:\n                InvalidHeadersExampleMark.set(original_test, invalid_headers)\n                continue", "            invalid_headers = dict(find_invalid_headers(example.headers))\n            if invalid_headers:\n                InvalidHeadersExampleMark.set(original_test, invalid_headers)\n                break", "one unsendable example drops all later ones"),
    # ---- C18
    ("C18", "detect", CHK, "    if not (400 <= response.status_code < 500):", "    if not (400 <= response.status_code <= 500):", "ensure_resource_availability counts 500"),
    ("C18", "detect", "engine/recorder.py", "        interaction = self.interactions.get(case_id)\n        if interaction is None or interaction.response is None:\n            return None\n        return interaction.response", "        for interaction in self.interactions.values():\n            if interaction.response is not None:\n                return interaction.response\n        return None", "find_response returns the first recorded response, not this case's"),
    ("C18", "detect", "engine/recorder.py", "            parent = self.cases.get(case.parent_id)", "            parent = self.cases.get(case_id)", "find_parent returns the case itself"),
    # ---- C19
    ("C19", "detect", "hooks.py", "    return filter_set is not None and ctx.operation is not None and not filter_set.match(ctx)", "    return filter_set is not None and ctx.operation is not None and filter_set.match(ctx)", "hook filter inverted"),
    ("C19", "detect", "hooks.py", "        for hook in self.get_all_by_name(f\"filter_{container}\"):\n            if _should_skip_hook(hook, context):\n                continue", "        for hook in self.get_all_by_name(f\"filter_{container}\"):\n            if False:\n                continue", "filter_* hooks ignore their own filters"),
    ("C19", "detect", "hooks.py", "    strategy = operation.schema.hooks.apply_to_container(strategy, container, context)\n    if hooks is not None:", "    if hooks is not None:", "schema-level hooks skipped"),
    ("C19", "detect", "auths.py", "        if self.filter_set.match(context):\n            return self.provider.get(case, context)\n        return None", "        return self.provider.get(case, context)", "restricted auth provider applied to every operation"),
    ("C19", "detect", "auths.py", "                provider.set(case, data, context)\n                case._has_explicit_auth = True\n                break", "                provider.set(case, data, context)\n                case._has_explicit_auth = True", "every auth provider with data is applied, the last one wins"),
    ("C19", "detect", "auths.py", "    if auth_storage is not None:\n        auth_storage.set(case, context)\n    elif case.operation.schema.auth.is_defined:", "    if case.operation.schema.auth.is_defined:\n        case.operation.schema.auth.set(case, context)\n    elif auth_storage is not None:\n        auth_storage.set(case, context)\n    elif case.operation.schema.auth.is_defined:", "schema-level auth shadows the test's own auth"),
    # ---- C20
    ("C20", "detect", GQL, "RootType.QUERY: gql_st.queries,", "RootType.QUERY: gql_st.mutations,", "queries generated with the mutation generator"),
    ("C20", "detect", GQL, "custom_scalars = {**get_extra_scalar_strategies(), **CUSTOM_SCALARS}", "custom_scalars = {**CUSTOM_SCALARS, **get_extra_scalar_strategies()}", "built-in scalars override registered ones"),
    ("C20", "detect", GQL, "allow_null=generation_config.graphql_allow_null,", "allow_null=True,", "allow_null ignored"),
    ("C20", "detect", GQL, "fields=[definition.field_name],", "fields=None,", "all fields selected"),
    ("C20", "detect", GQL, "            (RootType.MUTATION, schema.mutation_type),\n        ):\n            if operation_type is None:", "            (RootType.MUTATION, schema.mutation_type),\n            (RootType.MUTATION, schema.subscription_type),\n        ):\n            if operation_type is None:", "subscription fields offered as mutations"),
    ("C20", "detect", GQL, "                            if not self._should_skip(dummy_operation):\n                                statistic.operations.selected += 1", "                            statistic.operations.selected += 1", "statistic counts deselected operations as selected"),
    ("C20", "detect", "transport/prepare.py", "{\"query\": case.body}", "{\"document\": case.body}", "GraphQL document sent under the wrong member"),
    ("C20", "quiet", GQL, "    hook_context = HookContext(operation)\n    custom_scalars = {**get_extra_scalar_strategies(), **CUSTOM_SCALARS}\n", "    custom_scalars = {**get_extra_scalar_strategies(), **CUSTOM_SCALARS}\n    hook_context = HookContext(operation)\n", "independent statements reordered"),
    # ---- third-round contracts
    ("C01", "detect", "specs/openapi/parameters.py", "        \"maxLength\",\n        \"minLength\",\n        \"pattern\",\n        \"maxItems\",\n        \"minItems\",\n        \"uniqueItems\",\n        \"enum\",\n        \"multipleOf\",", "        \"maxLength\",\n        \"minLength\",\n        \"maxItems\",\n        \"minItems\",\n        \"uniqueItems\",\n        \"enum\",\n        \"multipleOf\",", "Swagger 2 parameters lose their pattern"),
    ("C01", "detect", "specs/openapi/parameters.py", "        \"maxProperties\",\n        \"minProperties\",\n        \"required\",\n        \"enum\",", "        \"maxProperties\",\n        \"minProperties\",\n        \"required\",", "OpenAPI 3 parameters lose their enum"),
    ("C02", "detect", "specs/openapi/negative/__init__.py", "            if value is not None:\n                result.append(", "            if value:\n                result.append(", "is_non_empty_query treats 0 / '' / False values as absent"),
    ("C04", "detect", "core/media_types.py", "    return main == \"application\" and (sub == \"json\" or sub.endswith(\"+json\"))", "    return sub == \"json\" or sub.endswith(\"+json\")", "text/json counted as JSON"),
    ("C05", "detect", "cli/commands/run/context.py", "                    else:\n                        # This failure was already seen - skip it\n                        continue\n\n            if current_case_failures:", "                    else:\n                        # This failure was already seen - skip it\n                        break\n\n            if current_case_failures:", "a repeated failure hides the new ones after it"),
    ("C08", "detect", "specs/openapi/schemas.py", "        path = path.replace(\"~1\", \"/\").replace(\"~0\", \"~\")\n        # Check the traversal cache", "        path = path.replace(\"~1\", \"/\")\n        # Check the traversal cache", "reference lookup never decodes ~0"),
    ("C09", "detect", "generation/case.py", "            curl = self.as_curl_command(headers=dict(response.request.headers), verify=verify)", "            curl = self.as_curl_command(headers=dict(self.headers or {}), verify=verify)", "failure message's curl built from the case headers, not the sent ones"),
    ("C10", "detect", "specs/openapi/stateful/__init__.py", "                    if isinstance(extracted.value, Ok) and extracted.value.ok() not in (None, UNRESOLVABLE)", "                    if isinstance(extracted.value, Ok) and extracted.value.ok() is not None", "UNRESOLVABLE marker passed on as a parameter value"),
    ("C20", "detect", GQL, "                field_name=field_name,\n                root_type=root_type,", "                field_name=field_name,\n                root_type=RootType.QUERY,", "every GraphQL operation recorded as a query"),
    ("C11", "detect", UNIT, "    try:\n        setup_hypothesis_database_key(test_function, operation)\n        with catch_warnings", "    setup_hypothesis_database_key(test_function, operation)\n    try:\n        with catch_warnings", "database-key fault escapes the worker's error handling"),
    ("C19", "detect", "auths.py", "        attach_filter_chain(_FilterableRequestsAuth, \"apply_to\", filter_set.include)\n        attach_filter_chain(_FilterableRequestsAuth, \"skip_for\", filter_set.exclude)", "        attach_filter_chain(_FilterableRequestsAuth, \"apply_to\", filter_set.exclude)\n        attach_filter_chain(_FilterableRequestsAuth, \"skip_for\", filter_set.include)", "requests-auth form: apply_to / skip_for swapped"),
    ("C19", "detect", "auths.py", "        if not filter_set.is_empty():\n            provider = SelectiveAuthProvider(provider, filter_set)", "        if filter_set.is_empty():\n            provider = SelectiveAuthProvider(provider, filter_set)", "filters of a registered provider dropped"),
    ("C19", "detect", "auths.py", "            auth_storage = self.__class__()\n            AuthStorageMark.set(test, auth_storage)", "            auth_storage = self\n            AuthStorageMark.set(test, auth_storage)", "test-scoped auth registered on the schema's storage"),
    ("C19", "detect", "hooks.py", "            attach_filter_chain(decorator, \"apply_to\", hook_filter_set.include)\n            attach_filter_chain(decorator, \"skip_for\", hook_filter_set.exclude)", "            attach_filter_chain(decorator, \"apply_to\", hook_filter_set.exclude)\n            attach_filter_chain(decorator, \"skip_for\", hook_filter_set.include)", "by-name hooks: apply_to / skip_for swapped"),
]
