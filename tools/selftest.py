#!/usr/bin/env python3
"""tools/selftest.py [--props C01,C07] [--jobs N] : run the mutant corpus (tools/mutants.py) and the seeded changes (seeded/<id>/patch.diff).

Every edit is applied to a scratch copy of /repo/src under a temporary directory (removed afterwards); the property's check runs on the copy (--src).
Expected: "detect" edits give exit 1 with a VIOLATION line; "quiet" edits give exit 0. Exit status 0 iff every expectation is met.
"""
import os
import re
import shutil
import subprocess
import sys
import tempfile
from concurrent.futures import ThreadPoolExecutor

HERE = os.path.dirname(os.path.abspath(__file__))
VERIF = os.path.dirname(HERE)
sys.path.insert(0, HERE)
from mutants import MUTANTS  # noqa: E402


def run_one(job):
    kind, prop, expect, apply, note = job
    d = tempfile.mkdtemp(prefix="pyvc_self.")
    try:
        shutil.copytree("/repo/src", os.path.join(d, "src"))
        err = apply(d)
        if err:
            return (kind, prop, expect, "NOT-APPLIED", err, note)
        p = subprocess.run([os.path.join(VERIF, "check"), prop, "--src", os.path.join(d, "src"), "--no-evidence"], cwd=VERIF, capture_output=True, text=True, timeout=3600)
        out = p.stdout + p.stderr
        m = re.findall(r"exit=(\d+)", out)
        code = int(m[-1]) if m else p.returncode
        obls = sorted(set(re.findall(r"^  obligation: (.*)$", out, re.M)))
        confirmed = len(re.findall(r"^VIOLATION(?!.*no-failing-input-found)", out, re.M))
        total = len(re.findall(r"^VIOLATION", out, re.M))
        verdict = {0: "quiet", 1: "detect", 2: "undecided", 3: "checker-error"}.get(code, f"exit{code}")
        return (kind, prop, expect, verdict, f"{'; '.join(obls)[:300]} [{confirmed}/{total} with replayed input]", note)
    finally:
        shutil.rmtree(d, ignore_errors=True)


def mutant_apply(file, old, new):
    def apply(d):
        path = os.path.join(d, "src", "schemathesis", file)
        s = open(path).read()
        n = s.count(old)
        if n != 1:
            return f"anchor text occurs {n} times (must be unique)"
        s = s.replace(old, new, 1)
        open(path, "w").write(s)
        return None

    return apply


def seed_apply(sid):
    def apply(d):
        p = subprocess.run(["patch", "-s", "-p1", "-d", d, "-i", os.path.join(VERIF, "seeded", sid, "patch.diff")], capture_output=True, text=True)
        return None if p.returncode == 0 else "patch does not apply: " + (p.stdout + p.stderr)[:200]

    return apply


def main():
    props = None
    jobs_n = 6
    a = sys.argv[1:]
    while a:
        x = a.pop(0)
        if x == "--props":
            props = set(a.pop(0).split(","))
        elif x == "--jobs":
            jobs_n = int(a.pop(0))
    jobs = []
    for sid in sorted(os.listdir(os.path.join(VERIF, "seeded"))):
        prop = sid[:3]  # seeded/C01 (first round), seeded/C01b (second round) ... all belong to property C01
        if os.path.exists(os.path.join(VERIF, "seeded", sid, "patch.diff")) and (props is None or prop in props):
            jobs.append(("seed", prop, "detect", seed_apply(sid), "seeded/" + sid))
    for prop, expect, file, old, new, note in MUTANTS:
        if props is None or prop in props:
            jobs.append(("mutant", prop, expect, mutant_apply(file, old, new), note))
    bad = 0
    with ThreadPoolExecutor(jobs_n) as ex:
        for kind, prop, expect, verdict, detail, note in ex.map(run_one, jobs):
            ok = verdict == expect
            bad += 0 if ok else 1
            print(f"{'ok  ' if ok else 'MISS'} {kind:6} {prop} expect={expect:6} got={verdict:13} {note} :: {detail}", flush=True)
    print(f"selftest: {len(jobs)} edits, {bad} not as expected")
    return 1 if bad else 0


if __name__ == "__main__":
    sys.exit(main())
