#!/bin/bash
# tools/confirm_seed.sh <seed-id> <property> : confirm a sub-agent's seeded change independently in a fresh scratch worktree, then keep it under /verif/seeded/<seed-id>/
# usage: confirm_seed2.sh <seed-id e.g. C01b> <property> <dir under /tmp/seeded${ROUND:-2}>
ID=$1; PROP=$2; SRCID=$3
SRC=/tmp/seeded${ROUND:-2}/$SRCID
WT=/tmp/confirm_wt_$ID
set -u
git -C /repo worktree remove --force $WT 2>/dev/null
git -C /repo worktree add -q --detach $WT HEAD || exit 2
cd $WT
PYTHONPATH=$WT/src timeout 600 /venv/bin/python $SRC/demo.py > /tmp/confirm_$ID.without.log 2>&1; WITHOUT=$?
git apply $SRC/patch.diff || { echo "patch does not apply"; exit 2; }
/venv/bin/python -m compileall -q src/schemathesis > /dev/null; COMPILES=$?
PYTHONPATH=$WT/src timeout 600 /venv/bin/python $SRC/demo.py > /tmp/confirm_$ID.with.log 2>&1; WITH=$?
NPROC=${NPROC:-8}
PYTHONPATH=$WT/src /venv/bin/python -m pytest -q -p no:cacheprovider --timeout=900 --continue-on-collection-errors -n $NPROC --junitxml=/tmp/confirm_$ID.xml test > /tmp/confirm_$ID.pytest.log 2>&1
BASE=$(/venv/bin/python /verif/tools/compare_baseline.py /tmp/confirm_$ID.xml | grep -v "auto-8" )
NOTPASS=$(echo "$BASE" | grep -c "NOT PASSING")
echo "$BASE" | grep "NOT PASSING" > /tmp/confirm_$ID.notpassing
echo "seed=$ID demo_without=$WITHOUT demo_with=$WITH compiles=$COMPILES stable_not_passing(excluding xdist artefact)=$NOTPASS"
mkdir -p /verif/seeded/$ID
cp $SRC/patch.diff $SRC/demo.py /verif/seeded/$ID/
[ -f $SRC/notes.md ] && cp $SRC/notes.md /verif/seeded/$ID/notes.md
python3 - <<PY
import json
meta = {"id": "$ID", "property": "$PROP", "demo_exit_without_patch": $WITHOUT, "demo_exit_with_patch": $WITH, "compiles": $COMPILES == 0,
        "stable_pass_tests_not_passing_with_patch": $NOTPASS,
        "confirmed": ($WITHOUT == 0 and $WITH != 0 and $COMPILES == 0 and $NOTPASS == 0),
        "what_i_ran": ["fresh worktree of /repo HEAD", "demo.py without patch (must exit 0)", "git apply patch.diff", "compileall", "demo.py with patch (must exit non-zero)",
                       "full pinned suite with xdist -n $NPROC compared against BASELINE.json stable_pass (test_convert_workers[auto-8] is an xdist artefact, ignored)"],
        "needs_to_manifest": open("$SRC/notes.md").read()[:1500] if __import__("os").path.exists("$SRC/notes.md") else ""}
json.dump(meta, open("/verif/seeded/$ID/meta.json", "w"), indent=1)
print(json.dumps({k: meta[k] for k in ("id", "confirmed")}))
PY
cd /; git -C /repo worktree remove --force $WT
rm -f /tmp/confirm_$ID.xml
