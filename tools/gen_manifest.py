"""Generates MANIFEST.json from the contract modules present (claimed) and NOT_APPLICABLE below."""
import importlib.util, json, os, sys
ROOT = os.path.dirname(os.path.dirname(os.path.abspath(__file__)))
sys.path.insert(0, ROOT)
BASE = json.load(open("/root/.vp/BASELINE.json"))["cmd"]
props = [json.loads(l) for l in open(os.path.join(ROOT, "properties.jsonl"))]
checks = []
na = []
NA_REASONS = json.load(open(os.path.join(ROOT, "tools", "na_reasons.json")))
for p in props:
    pid = p["id"]
    path = os.path.join(ROOT, "contracts", f"{pid}.py")
    if not os.path.exists(path):
        na.append({"property_id": pid, "reason": NA_REASONS.get(pid, "no contract within reach has been built yet for this property (work in progress); see DESIGN.md Part 2")})
        continue
    spec = importlib.util.spec_from_file_location(f"c_{pid}", path)
    m = importlib.util.module_from_spec(spec); spec.loader.exec_module(m)
    checks.append({
        "property_id": pid,
        "quick_cmd": f"./check {pid} --tier quick",
        "thorough_cmd": f"./check {pid} --tier thorough",
        "evidence_file": f"evidence/{pid}.json",
        "replay_cmd_template": f"./check {pid} --replay {{path}}",
        "engine": "pyvc",
        "level_claimed": {"category": m.LEVEL, "text": m.LEVEL_TEXT, "design_ref": f"DESIGN.md Part 2, {pid}"},
        "level_note": m.LEVEL_NOTE,
        "technique": m.TECHNIQUE,
    })
man = {
    "version": 1,
    "setup_cmd": "./setup.sh",
    "hooks": {"guard": "SCHEMATHESIS_VERIF", "enable": "not used: contracts are sidecar files under /verif/contracts, the real source is re-read with ast on every run; no hook was added to /repo",
              "baseline_off_cmd": BASE, "source_commits": [], "add_only": True},
    "engines": [{"name": "pyvc", "path": "pyvc/", "serves_properties": [c["property_id"] for c in checks],
                 "kind_free_text": "verification-condition generator for a Python subset: re-reads the real functions from /repo with ast on every run, executes them symbolically path by path, abstracts callees by sidecar contracts, cuts loops with invariants, discharges obligations with z3 5.1 (cvc5 as second solver); counter-models are replayed on the real function under /venv/bin/python"}],
    "checks": checks,
    "notes": "Exit codes of ./check: 0 held, 1 violation (VIOLATION line), 2 undecided (never reported as violation), 3 checker error / vacuity guard. See DESIGN.md.",
    "not_applicable": na,
}
json.dump(man, open(os.path.join(ROOT, "MANIFEST.json"), "w"), indent=1)
print("claimed:", [c["property_id"] for c in checks], "na:", len(na))
