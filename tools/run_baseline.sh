#!/bin/bash
# Usage: run_baseline.sh <repo_dir> <out_prefix>   -- runs the pinned suite (xdist -n 12) and compares to stable_pass
REPO=${1:-/repo}; OUT=${2:-/tmp/baseline_run}
cd "$REPO" && PYTHONPATH="$REPO/src" /venv/bin/python -m pytest -q -p no:cacheprovider --timeout=900 --continue-on-collection-errors -n 12 --junitxml="$OUT.xml" test > "$OUT.log" 2>&1
/venv/bin/python /verif/tools/compare_baseline.py "$OUT.xml"
