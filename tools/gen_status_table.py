#!/usr/bin/env python3
"""tools/gen_status_table.py : rewrite the status table of DESIGN.md (between the STATUS-TABLE markers) from evidence/*.json and known_findings.json."""
import json
import os
import re

ROOT = os.path.dirname(os.path.dirname(os.path.abspath(__file__)))
findings = json.load(open(os.path.join(ROOT, "known_findings.json")))
rows = ["| id | level | functions under contract (variants collapsed) | ded. | bnd. | stand-ins | open findings | fixed findings |", "|---|---|---|---|---|---|---|---|"]
for i in range(1, 21):
    pid = f"C{i:02d}"
    ev = json.load(open(os.path.join(ROOT, "evidence", pid + ".json")))
    cov = ev["coverage"]
    names = []
    for f in cov["functions_under_contract"]:
        n = f["function"].split(":")[-1].split("#")[0].replace("<locals>.", "")
        if n not in names:
            names.append(n)
    stand = [c["name"] for c in cov.get("bounded_stand_ins", [])]
    opened = sorted({f["id"] for f in findings if f["property"] == pid and f.get("status") == "open"})
    fixed = sorted({f["id"] for f in findings if f["property"] == pid and f.get("status") == "fixed"})
    rows.append(f"| {pid} | {ev['level']} | {', '.join('`' + n + '`' for n in names)} | {cov['discharged']} | {cov['obligations_bounded_only']} | {', '.join(stand) or '–'} | {' '.join(opened) or '–'} | {' '.join(fixed) or '–'} |")
table = "\n".join(rows)
p = os.path.join(ROOT, "DESIGN.md")
s = open(p).read()
s2 = re.sub(r"<!-- STATUS-TABLE-BEGIN -->.*?<!-- STATUS-TABLE-END -->", "<!-- STATUS-TABLE-BEGIN -->\n" + table + "\n<!-- STATUS-TABLE-END -->", s, flags=re.S)
open(p, "w").write(s2)
print("rows:", len(rows) - 2, "changed:", s != s2)
