#!/bin/bash
# re-run every kept seed's demo on the current /repo HEAD without and with its patch (scratch copy)
for d in /verif/seeded/*; do
  id=$(basename $d)
  demo=$d/demo.py; [ -f $demo ] || demo=$(ls $d/demo* | head -1)
  S=$(mktemp -d /tmp/demo_src.XXXX); cp -r /repo/src $S/src
  (cd /repo && PYTHONPATH=/repo/src timeout 900 /venv/bin/python $demo > /tmp/demo_$id.without.log 2>&1); W=$?
  if patch -s -p1 -d $S < $d/patch.diff > /dev/null 2>&1; then
    (cd /repo && PYTHONPATH=$S/src timeout 900 /venv/bin/python $demo > /tmp/demo_$id.with.log 2>&1); P=$?
  else P=patch-failed; fi
  echo "$id without=$W with=$P"
  rm -rf $S
done
