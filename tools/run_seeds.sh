#!/bin/bash
# tools/run_seeds.sh [ids...] : apply each seeded/<id>/patch.diff to a scratch copy of /repo/src, run that property's check on the copy
# (--src), print the verdict and the failed obligations, remove the copy. /repo itself is never touched.
cd /verif
IDS=${@:-$(ls seeded)}
for id in $IDS; do
  D=$(mktemp -d /tmp/pyvc_seed.XXXX)
  cp -r /repo/src $D/src
  if ! patch -s -p1 -d $D < seeded/$id/patch.diff >/dev/null 2>&1; then echo "$id PATCH-DOES-NOT-APPLY"; rm -rf $D; continue; fi
  out=$(./check ${id:0:3} --src $D/src --no-evidence 2>&1)
  code=$(echo "$out" | grep -oE "exit=[0-9]+" | tail -1)
  echo "$id $code $(echo "$out" | grep -E '^  obligation:' | sed 's/  obligation: //' | sort -u | tr '\n' ';' | cut -c1-400) $(echo "$out" | grep -cE '^VIOLATION.*no-failing-input-found' ) without-input / $(echo "$out" | grep -cE '^VIOLATION') violations"
  rm -rf $D
done
