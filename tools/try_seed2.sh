#!/bin/bash
# tools/try_seed2.sh <id> : (ROUND=2|3) apply /tmp/seeded<ROUND>/<id>/patch.diff to a scratch copy of /repo/src and run the check
id=$1
D=$(mktemp -d /tmp/pyvc_seed.XXXX)
cp -r /repo/src $D/src
if ! patch -s -p1 -d $D < /tmp/seeded${ROUND:-2}/$id/patch.diff >/dev/null 2>&1; then echo "$id PATCH-DOES-NOT-APPLY"; rm -rf $D; exit 1; fi
cd /verif && ./check $id --src $D/src --no-evidence 2>&1 | grep -E "VIOLATION|obligation:|UNDECIDED|CHECKER|exit=" | cut -c1-260
rm -rf $D
