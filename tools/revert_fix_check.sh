#!/bin/bash
# for every "fix:" commit of /repo: revert it on a scratch copy of the current tree and run the check of the property it belongs to (must report a violation)
python3 - <<'PY' > /tmp/fix_list.txt
import json
d=json.load(open('/verif/known_findings.json'))
seen=set()
for e in d:
    if e.get('status')=='fixed':
        for c in str(e['commit']).replace(',',' ').split():
            key=(e['property'],c)
            if key not in seen:
                seen.add(key); print(e['property'], c, e['id'])
PY
while read prop commit fid; do
  D=$(mktemp -d /tmp/pyvc_rev.XXXX); cp -r /repo/src $D/src
  if git -C /repo show $commit -- src | patch -R -s -p1 -d $D > /dev/null 2>&1; then
    out=$(cd /verif && ./check $prop --src $D/src --no-evidence 2>&1 | grep -E "exit=" | tail -1 | sed 's/.*exit=//')
    echo "$fid $prop $commit reverted -> exit=$out"
  else
    echo "$fid $prop $commit REVERT-DOES-NOT-APPLY (later changes on the same lines)"
  fi
  rm -rf $D
done < /tmp/fix_list.txt
