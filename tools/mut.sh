#!/bin/bash
# tools/mut.sh <prop> <relative file under src/> <sed expression>  -> applies to a scratch copy, runs the check, removes the copy
P=$1; FILE=$2; EXPR=$3
D=$(mktemp -d /tmp/pyvc_mut.XXXX)
cp -r /repo/src $D/src
sed -i "$EXPR" $D/src/$FILE
if diff -q /repo/src/$FILE $D/src/$FILE >/dev/null; then echo "MUTATION DID NOT APPLY"; rm -rf $D; exit 9; fi
diff /repo/src/$FILE $D/src/$FILE | head -6
cd /verif && ./check $P --src $D/src --no-evidence 2>&1 | grep -E "VIOLATION|obligation:|UNDECIDED|CHECKER|exit=" | head -8
rm -rf $D
