#!/bin/bash
# Offline setup: nothing to download. pyvc runs under python3-vt (z3-solver, cvc5 present); native replay uses /venv/bin/python.
set -e
cd "$(dirname "$0")"
python3-vt -c "import z3, sys; print('z3', z3.get_version_string(), 'python', sys.version.split()[0])"
python3-vt -m compileall -q pyvc contracts >/dev/null
/venv/bin/python -c "import schemathesis; print('schemathesis from', schemathesis.__file__)"
mkdir -p evidence replays
echo setup-ok
