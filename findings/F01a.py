"""Witness of known finding F01a (C01): update_quantifier merges maxLength into the pattern and DROPS the keyword also when the pattern is not anchored
('[a-z]+' matches inside longer strings) or repeats a multi-character group ('^(ab)+$': repetitions are counted, not characters).
Exit 1 = reproduces, 0 = does not."""
import re, sys
from schemathesis.specs.openapi.converter import update_pattern_in_schema
bad = []
for pattern, limit, witness in (("[a-z]+", 3, "abcdefgh"), ("^(ab)+$", 3, "ababab")):
    new = {"type": "string", "pattern": pattern, "maxLength": limit}
    update_pattern_in_schema(new)
    if "maxLength" not in new and re.search(new["pattern"], witness) and len(witness) > limit:
        bad.append((pattern, new["pattern"], witness))
print(bad)
sys.exit(1 if bad else 0)
