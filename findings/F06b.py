"""Witness of finding F06b (C06, fixed by e61d7f78): jsonify_python_specific_types left booleans / None inside lists (and inside objects nested in lists)
in their Python form, so query arrays were sent as `True` / `None` instead of `true` / `null`. Exit 1 = reproduces, 0 = does not."""
import sys
from schemathesis.specs.openapi._hypothesis import jsonify_python_specific_types as jsonify

got = jsonify({"ids": [True, None, {"x": False}], "o": {"c": [False]}})
print(got)
ok = got == {"ids": ["true", "null", {"x": "false"}], "o": {"c": ["false"]}}
sys.exit(0 if ok else 1)
