"""Witness of known finding F16d (C16): a case WITHOUT metadata (meta is None) makes vcr_writer emit `status: '...'null` - the cassette is not valid YAML.
Exit 1 = reproduces, 0 = does not."""
import os, sys
sys.path.insert(0, os.path.dirname(os.path.abspath(__file__)))
from _c16 import C16
import yaml
text = C16._cassette_for("none", "http://127.0.0.1/x", b"plain", False, False)
try:
    doc = yaml.safe_load(text)
    ok = len(doc["http_interactions"]) == 1
except Exception as exc:
    print("cassette does not parse:", type(exc).__name__)
    ok = False
sys.exit(0 if ok else 1)
