"""Witness of finding F01d (C01): an object schema with properties NAMED `pattern` and `minLength` / `maxLength` (e.g. a resource describing validation rules) crashed the
schema conversion: to_json_schema is applied to every mapping of the tree - also to the `properties` mapping - and update_pattern_in_schema handed the two sub-schemas to
update_quantifier as if they were a regex and a number (TypeError: unhashable type: 'dict'); the operation could not be tested at all.  Exit 1 = reproduces, 0 = does not."""
import sys
from schemathesis.specs.openapi.converter import to_json_schema_recursive

schema = {"type": "object", "properties": {"pattern": {"type": "string"}, "minLength": {"type": "integer"}, "maxLength": {"type": "integer"}}}
expected = {"type": "object", "properties": {"pattern": {"type": "string"}, "minLength": {"type": "integer"}, "maxLength": {"type": "integer"}}}
try:
    converted = to_json_schema_recursive(schema, "nullable")
except TypeError as exc:
    print("conversion raised:", repr(exc))
    sys.exit(1)
print("converted:", converted)
sys.exit(0 if converted == expected else 1)
