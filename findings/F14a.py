"""Witness of finding F14a (C14, fixed): with any custom header configured (-H / network headers) the `--set-header` overrides were replaced
instead of merged in get_strategy_kwargs, so they were missing from every generated request. Exit 1 = reproduces, 0 = does not."""
import sys
from types import SimpleNamespace
import schemathesis
from schemathesis.engine.phases.unit import get_strategy_kwargs
from schemathesis.generation.overrides import Override

raw = {"openapi": "3.0.2", "info": {"title": "t", "version": "1"}, "paths": {"/x": {"get": {
    "parameters": [{"name": "X-Key", "in": "header", "schema": {"type": "string"}}], "responses": {"200": {"description": "ok"}}}}}}
op = schemathesis.openapi.from_dict(raw)["/x"]["GET"]
ctx = SimpleNamespace(config=SimpleNamespace(override=Override(query={}, headers={"X-Key": "SECRET"}, cookies={}, path_parameters={}),
                                             network=SimpleNamespace(headers={"Authorization": "Bearer t"})))
got = get_strategy_kwargs(ctx, op)
print(got)
sys.exit(0 if got.get("headers", {}).get("X-Key") == "SECRET" and got["headers"].get("Authorization") == "Bearer t" else 1)
