"""Witness of finding F06d (C06): an OpenAPI 3 multipart/form-data body whose media-type schema is a `$ref` (the usual spelling) - or whose requestBody is a `$ref` -
was sent with NO body and no Content-Type: prepare_multipart looked the properties up in the raw, unresolved definition.  Exit 1 = reproduces, 0 = does not."""
import sys
import requests
import schemathesis

COMPONENTS = {"schemas": {"Form": {"type": "object", "required": ["name", "file"], "properties": {"name": {"type": "string"}, "file": {"type": "string", "format": "binary"}}}},
              "requestBodies": {"Upload": {"required": True, "content": {"multipart/form-data": {"schema": {"$ref": "#/components/schemas/Form"}}}}}}
bad = []
for spelling, body in (("schema-ref", {"required": True, "content": {"multipart/form-data": {"schema": {"$ref": "#/components/schemas/Form"}}}}),
                       ("body-ref", {"$ref": "#/components/requestBodies/Upload"})):
    raw = {"openapi": "3.0.2", "info": {"title": "t", "version": "1"}, "components": COMPONENTS,
           "paths": {"/upload": {"post": {"requestBody": body, "responses": {"200": {"description": "ok"}}}}}}
    for result in schemathesis.openapi.from_dict(raw).get_all_operations():
        case = result.ok().Case(body={"name": "abc", "file": b"xyz"}, media_type="multipart/form-data")
        prepared = requests.Request(**case.as_transport_kwargs(base_url="http://127.0.0.1")).prepare()
        sent = prepared.body or b""
        if b'name="name"' not in sent or b"abc" not in sent or b"xyz" not in sent or not (prepared.headers.get("Content-Type") or "").startswith("multipart/form-data"):
            bad.append((spelling, sent[:80], prepared.headers.get("Content-Type")))
print("not sent:", bad)
sys.exit(1 if bad else 0)
