"""Witness of finding F04a (C04, fixed by 7240536e): a response documented only under the range `2XX` was never validated against its schema
(exact code / `default` lookup only), so a deviating body was passed. Exit 1 = reproduces, 0 = does not."""
import sys
from _c04 import OBJ, verdict

doc = {"2XX": {"description": "", "content": {"application/json": {"schema": OBJ}}}}
got = verdict(doc, 200, b'{"id": "x"}', "application/json")
print("2XX documented, 200 received with a schema-violating body:", got)
sys.exit(1 if got == "pass" else 0)
