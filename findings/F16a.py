"""Witness of known finding F16a (C16): a single quote in the request URI breaks the single-quoted YAML scalar `uri: '...'`.
Exit 1 = reproduces, 0 = does not."""
import os, sys
sys.path.insert(0, os.path.dirname(os.path.abspath(__file__)))
from _c16 import C16
import yaml
uri = "http://127.0.0.1/it's"
text = C16._cassette_for("fuzzing", uri, b"plain", False, False)
try:
    doc = yaml.safe_load(text)
    ok = doc["http_interactions"][0]["request"]["uri"] == uri
except Exception as exc:
    print("cassette does not parse:", type(exc).__name__)
    ok = False
sys.exit(0 if ok else 1)
