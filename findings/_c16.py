import os, sys
ROOT = os.path.dirname(os.path.dirname(os.path.abspath(__file__)))
sys.path.insert(0, ROOT)
from pyvc import nativelib as N
C16 = N.load_contract_module(os.path.join(ROOT, "contracts", "C16.py"))
