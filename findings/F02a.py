"""Witness of known finding F02a (C02): in negative mode a location WITHOUT parameters (query/headers/cookies absent -> None) is still labelled NEGATIVE in
case.meta.components, i.e. a part labelled negative is not present. Exit 1 = reproduces, 0 = does not."""
import sys
import schemathesis
from hypothesis import given, settings, HealthCheck
from schemathesis.generation import GenerationMode

raw = {"openapi": "3.0.2", "info": {"title": "t", "version": "1"}, "paths": {"/x/{id}": {"get": {
    "parameters": [{"name": "id", "in": "path", "required": True, "schema": {"type": "integer"}}],
    "responses": {"200": {"description": "ok"}}}}}}
op = schemathesis.openapi.from_dict(raw)["/x/{id}"]["GET"]
bad = []

@given(case=op.as_strategy(generation_mode=GenerationMode.NEGATIVE))
@settings(max_examples=10, deadline=None, suppress_health_check=list(HealthCheck), database=None, derandomize=True)
def run(case):
    for kind, info in case.meta.components.items():
        value = getattr(case, kind.value)
        if kind.value != "body" and value is None:
            bad.append((kind.name, info.mode.name))

run()
print("labelled but absent parts:", sorted(set(bad)))
sys.exit(1 if bad else 0)
