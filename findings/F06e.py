"""Witness of finding F06e (C06): Swagger 2.0 multipart/form-data - a plain (non-file) formData field was sent as a FILE part (`filename="<field name>"`):
a standards-conforming multipart decoder (Werkzeug) puts it under `files`, not under `form`, so the server never sees the generated field value where the schema declares it.
Exit 1 = reproduces, 0 = does not."""
import sys
import requests
import schemathesis
from werkzeug.test import EnvironBuilder
from werkzeug.wrappers import Request

RAW = {"swagger": "2.0", "info": {"title": "t", "version": "1"}, "host": "127.0.0.1", "basePath": "/",
       "paths": {"/upload": {"post": {"consumes": ["multipart/form-data"], "parameters": [
           {"name": "name", "in": "formData", "type": "string", "required": True},
           {"name": "tags", "in": "formData", "type": "array", "items": {"type": "string"}, "required": True},
           {"name": "file", "in": "formData", "type": "file", "required": True}], "responses": {"200": {"description": "ok"}}}}}}
bad = []
for result in schemathesis.openapi.from_dict(RAW).get_all_operations():
    case = result.ok().Case(body={"name": "abc", "tags": ["x", "y"], "file": b"xyz"}, media_type="multipart/form-data")
    prepared = requests.Request(**case.as_transport_kwargs(base_url="http://127.0.0.1")).prepare()
    env = EnvironBuilder(method="POST", path="/upload", data=prepared.body, headers={"Content-Type": prepared.headers["Content-Type"]}).get_environ()
    decoded = Request(env)
    if decoded.form.get("name") != "abc":
        bad.append(("field `name` not decoded as a form field", dict(decoded.form), sorted(decoded.files)))
    if decoded.form.getlist("tags") != ["x", "y"]:
        bad.append(("array items", decoded.form.getlist("tags")))
    if "file" not in decoded.files or decoded.files["file"].read() != b"xyz":
        bad.append(("file part", sorted(decoded.files)))
print("violations:", bad)
sys.exit(1 if bad else 0)
