"""Witness of finding F04b (C04, fixed by fce74462): with two documented media types the schema of the FIRST one was applied whatever the response's
Content-Type was: a conforming JSON body was rejected against the text/plain schema. Exit 1 = reproduces, 0 = does not."""
import sys
from _c04 import OBJ, verdict

doc = {"200": {"description": "", "content": {"text/plain": {"schema": {"type": "string"}}, "application/json": {"schema": OBJ}}}}
good = verdict(doc, 200, b'{"id": 1}', "application/json")
bad = verdict(doc, 200, b'{"id": "x"}', "application/json")
print("conforming JSON body:", good, "| deviating JSON body:", bad)
sys.exit(1 if (good != "pass" or bad == "pass") else 0)
