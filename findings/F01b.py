"""Witness of known finding F01b (C01): two readOnly properties are forbidden with `not: {required: [a, b]}`, which only rejects objects containing BOTH:
an object with just one readOnly property is valid for the generator's schema. Exit 1 = reproduces, 0 = does not."""
import sys
import jsonschema
from schemathesis.specs.openapi.converter import to_json_schema
schema = {"type": "object", "properties": {"a": {"type": "string", "readOnly": True}, "b": {"type": "string", "readOnly": True}, "c": {"type": "string"}}}
out = to_json_schema(schema, nullable_name="nullable")
print(out)
ok = jsonschema.Draft4Validator(out).is_valid({"a": "x"})
sys.exit(1 if ok else 0)
