"""Shared helper of the C04 witnesses: validate one response against a one-operation OpenAPI 3 document."""
import requests
import schemathesis
from schemathesis.core.transport import Response

OBJ = {"type": "object", "properties": {"id": {"type": "integer"}}, "required": ["id"]}


def verdict(responses, status, body, ctype):
    raw = {"openapi": "3.0.2", "info": {"title": "t", "version": "1"}, "paths": {"/users": {"get": {"responses": responses}}}}
    op = schemathesis.openapi.from_dict(raw)["/users"]["GET"]
    response = Response(status_code=status, headers={"Content-Type": [ctype]}, content=body, request=requests.Request("GET", "http://x/users").prepare(), elapsed=0.1, verify=True)
    try:
        op.validate_response(response)
        return "pass"
    except BaseException as exc:  # noqa: BLE001
        return "fail:" + type(exc).__name__
