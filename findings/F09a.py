"""Witness of known finding F09a (C09): a header with an EMPTY value is printed as -H 'K: ', which curl drops (it needs -H 'K;').
Exit 1 = reproduces (the replayed request lacks the header), 0 = does not."""
import os
import sys

sys.path.insert(0, os.path.dirname(os.path.abspath(__file__)))
from curl_loopback import run_curl_command
from schemathesis.core import curl

got = run_curl_command(lambda base: curl.generate(method="POST", url=base + "/x", body="{}", verify=True,
                                                  headers={"X-Empty": "", "X-Kept": "1"}, known_generated_headers={}))
if got is None:
    print("curl did not reach the loopback listener (cannot decide)")
    sys.exit(0)
method, path, headers, body = got
print("received headers:", headers)
sys.exit(1 if ("x-empty" not in headers and headers.get("x-kept") == "1") else 0)
