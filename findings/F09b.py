"""Witness of known finding F09b (C09): a body whose first character is '@' is printed with -d, which curl reads as a FILE NAME (--data-raw is needed).
Exit 1 = reproduces (the replayed body differs from the original), 0 = does not."""
import os
import sys

sys.path.insert(0, os.path.dirname(os.path.abspath(__file__)))
from curl_loopback import run_curl_command
from schemathesis.core import curl

BODY = "@no-such-file-for-schemathesis-verif"
got = run_curl_command(lambda base: curl.generate(method="POST", url=base + "/x", body=BODY, verify=True, headers={"Content-Type": "text/plain"}, known_generated_headers={}))
if got is None:
    print("curl did not reach the loopback listener (cannot decide)")
    sys.exit(0)
method, path, headers, body = got
print("received body:", body)
sys.exit(1 if body != BODY.encode() else 0)
