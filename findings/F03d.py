"""Witness of known finding F03d (C03): the 'Default positive test case' is labelled POSITIVE although the template carries a NEGATIVE value.

Needs a parameter for which the boundary generator produces no positive value at all (here: an invalid regex), with both modes enabled.
Exit 1 = the defect reproduces on the tree under test, exit 0 = it does not.
"""
import sys
import schemathesis
from schemathesis.generation import GenerationMode
from schemathesis.generation.hypothesis.builder import _iter_coverage_cases

raw = {"openapi": "3.0.2", "info": {"title": "t", "version": "1"}, "paths": {"/x": {"get": {
    "parameters": [{"name": "q", "in": "query", "schema": {"type": "string", "pattern": "("}}],
    "responses": {"200": {"description": "ok"}}}}}}
op = schemathesis.openapi.from_dict(raw)["/x"]["GET"]
bad = []
for case in _iter_coverage_cases(op, [GenerationMode.POSITIVE, GenerationMode.NEGATIVE]):
    meta = case.meta
    part_negative = any(info.mode == GenerationMode.NEGATIVE for info in meta.components.values())
    special = meta.phase.data.description.startswith(("Unspecified HTTP method", "Duplicate", "Missing"))
    if (meta.generation.mode == GenerationMode.NEGATIVE) != (part_negative or special):
        bad.append((meta.phase.data.description, meta.generation.mode.name, {k.name: v.mode.name for k, v in meta.components.items()}))
print("mislabelled cases:", bad)
sys.exit(1 if bad else 0)
