"""Witness of known finding F06c (C06): label style loses an array whose elements are all empty strings: [""] -> "" (RFC 6570 label expansion gives ".").
Exit 1 = reproduces, 0 = does not."""
import sys
from schemathesis.specs.openapi import serialization as S
a = S.label_array("id", explode=False)({"id": [""]})["id"]
print(repr(a))
sys.exit(1 if a != "." else 0)
