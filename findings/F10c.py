"""Witness of finding F10c (C10): text starting with '#' in a runtime expression, outside `$request.body#...` / `$response.body#...` / `#regex:` contexts, was dropped:
evaluate('#tag') == '', evaluate('color#1') == 'color', evaluate('id:{$request.query.id}#frag') == 'id:5'. A constant denotes itself and an embedded expression is replaced in place.
Exit 1 = reproduces, 0 = does not."""
import sys
from types import SimpleNamespace
from schemathesis.specs.openapi.expressions import evaluate

out = SimpleNamespace(case=SimpleNamespace(operation=SimpleNamespace(method="get"), path_parameters={}, query={"id": 5}, headers={}, body=None), response=SimpleNamespace(status_code=200, headers={}))
bad = [(e, evaluate(e, out), want) for e, want in (("#tag", "#tag"), ("color#1", "color#1"), ("id:{$request.query.id}#frag", "id:5#frag")) if evaluate(e, out) != want]
print("truncated:", bad)
sys.exit(1 if bad else 0)
