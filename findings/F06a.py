"""Witness of known finding F06a (C06): matrix style with explode=false omits the `name=` prefix: [3,4,5] -> ';3,4,5' (the style table says ';id=3,4,5').
Exit 1 = reproduces, 0 = does not."""
import sys
from schemathesis.specs.openapi import serialization as S
a = S.matrix_array("id", explode=False)({"id": ["3", "4", "5"]})["id"]
o = S.matrix_object("id", explode=False)({"id": {"R": "100"}})["id"]
print(a, o)
sys.exit(1 if (a != ";id=3,4,5" or o != ";id=R,100") else 0)
