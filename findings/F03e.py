"""Witness of finding F03e (C03): negative 'Incorrect type' values for a `type` LIST that allows both integer and number.
{'type': ['integer', 'number']} raised KeyError('integer') (every coverage case of the operation was lost); with the KeyError alone repaired a non-integer float
was produced and labelled 'Incorrect type' although a float is a valid number.  Exit 1 = reproduces, 0 = does not."""
import sys
from schemathesis.generation import GenerationMode
from schemathesis.generation.coverage import CoverageContext, cover_schema_iter

bad = []
for schema in ({"type": ["integer", "number"]}, {"type": ["number", "integer"]}):
    ctx = CoverageContext(location="query", generation_modes=[GenerationMode.NEGATIVE])
    try:
        values = list(cover_schema_iter(ctx, schema))
    except KeyError as exc:
        bad.append((schema, f"KeyError({exc})"))
        continue
    for v in values:
        if v.description == "Incorrect type" and isinstance(v.value, (int, float)) and not isinstance(v.value, bool):
            bad.append((schema, f"{v.value!r} labelled 'Incorrect type'"))
print("violations:", bad)
sys.exit(1 if bad else 0)
