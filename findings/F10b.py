"""Witness of known finding F10b (C10): resolve_pointer converts array-index tokens with int(), so non-RFC-6901 indices denote elements:
'/a/-1' is the LAST element, '/a/01', '/a/+1', '/a/ 1', '/a/1_0' are accepted. RFC 6901 allows only '0' or digits without leading zero.
Exit 1 = reproduces, 0 = does not."""
import sys
from schemathesis.core.transforms import UNRESOLVABLE, resolve_pointer
doc = {"a": [10, 11, 12]}
bad = [p for p in ("/a/-1", "/a/01", "/a/+1", "/a/ 1") if resolve_pointer(doc, p) is not UNRESOLVABLE]
print("accepted non-RFC indices:", bad)
sys.exit(1 if bad else 0)
