"""Shared by the C09 witnesses / stand-in: run a shell command containing a curl invocation against a loopback listener and return what the server received."""
import socket
import subprocess
import threading


def run_curl_command(make_command, timeout=10):
    """make_command(url) -> shell command string. Returns (method, path, headers dict (lower-cased names), body bytes) as received."""
    srv = socket.socket()
    srv.bind(("127.0.0.1", 0))
    srv.listen(1)
    port = srv.getsockname()[1]
    out = []

    def serve():
        srv.settimeout(timeout)
        try:
            conn, _ = srv.accept()
        except OSError:
            return
        conn.settimeout(2.0)
        data = b""
        try:
            while b"\r\n\r\n" not in data:
                chunk = conn.recv(65536)
                if not chunk:
                    break
                data += chunk
            head, _, body = data.partition(b"\r\n\r\n")
            cl = 0
            for line in head.split(b"\r\n")[1:]:
                if line.lower().startswith(b"content-length:"):
                    cl = int(line.split(b":", 1)[1])
            while len(body) < cl:
                chunk = conn.recv(65536)
                if not chunk:
                    break
                body += chunk
            out.append((head, body))
            conn.sendall(b"HTTP/1.1 200 OK\r\nContent-Length: 0\r\nConnection: close\r\n\r\n")
        except OSError:
            pass
        finally:
            conn.close()

    t = threading.Thread(target=serve)
    t.start()
    command = make_command(f"http://127.0.0.1:{port}")
    subprocess.run(["sh", "-c", command.replace("curl ", "curl -s ", 1)], capture_output=True, timeout=timeout)
    t.join(timeout)
    srv.close()
    if not out:
        return None
    head, body = out[0]
    lines = head.split(b"\r\n")
    method, path, _ = lines[0].decode("latin-1").split(" ", 2)
    headers = {}
    for line in lines[1:]:
        k, _, v = line.decode("latin-1").partition(":")
        headers[k.strip().lower()] = v.strip()
    return method, path, headers, body
