"""Witness of known finding F01c (C01): when maxLength minus the number of literal characters of an anchored multi-part pattern is 0, `max_length or MAXREPEAT`
treats the bound as absent: the quantifiers stay unbounded and maxLength is DROPPED, so positive strings longer than maxLength are generated.
Exit 1 = reproduces, 0 = does not."""
import re, sys
from schemathesis.specs.openapi.converter import update_pattern_in_schema
schema = {"type": "string", "pattern": "^a+-0+$", "maxLength": 1}
new = dict(schema)
update_pattern_in_schema(new)
print(new)
bad = "maxLength" not in new and re.search(new["pattern"], "a-0") is not None
sys.exit(1 if bad else 0)
