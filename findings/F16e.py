"""Witness of finding F16e (C16, fixed): with output sanitization on (the default) the HAR writer crashed with ValueError on the first request whose URL carries
credentials: the sanitized URL `http://[Filtered]@host/...` was re-parsed with urlparse, which rejects the bracketed marker. Exit 1 = reproduces, 0 = does not."""
import json
import os
import queue
import sys
import tempfile
from types import SimpleNamespace
from schemathesis.cli.commands.run.handlers import cassettes as C
from schemathesis.core.transport import Response
from schemathesis.engine.recorder import CaseNode, Interaction, Request, ScenarioRecorder

rec = ScenarioRecorder(label="GET /x")
rec.cases["c1"] = CaseNode(value=SimpleNamespace(id="c1", meta=None), parent_id=None, transition=None)
req = Request(method="GET", uri="http://user:pw@127.0.0.1/x?a=1", body=None, body_size=None, headers={"X-A": ["v"]})
resp = Response(status_code=200, headers={"Content-Type": ["text/plain"]}, content=b"ok", request=SimpleNamespace(), elapsed=0.1, verify=True, message="OK", http_version="1.1", encoding="utf-8")
rec.interactions["c1"] = Interaction(request=req, response=resp)
q = queue.Queue()
q.put(C.Initialize(seed=1))
q.put(C.Process(recorder=rec))
q.put(C.Finalize())
fd, name = tempfile.mkstemp(suffix=".har")
os.close(fd)
try:
    try:
        C.har_writer(name, True, False, q)
    except ValueError as exc:
        print("har_writer crashed:", exc)
        sys.exit(1)
    entries = json.load(open(name))["log"]["entries"]
    print("entries:", len(entries), entries[0]["request"]["url"])
    sys.exit(0 if len(entries) == 1 and "pw" not in entries[0]["request"]["url"] else 1)
finally:
    os.unlink(name)
