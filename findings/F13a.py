"""Witness of known finding F13a (C13): examples.generate_one runs `given` with no seed / database / derandomize. Hypothesis tries the minimal example first;
when that one is rejected by a filter the value comes from ambient entropy, so coverage / examples fill-ins differ between fresh processes with the same --seed.
Exit 1 = reproduces (two fresh processes give different values), 0 = does not."""
import subprocess, sys, os
code = ("from hypothesis import strategies as st\n"
        "from schemathesis.generation.hypothesis import examples\n"
        "print(examples.generate_one(st.integers().filter(lambda x: x > 5)))\n")
outs = set()
for _ in range(4):
    r = subprocess.run([sys.executable, "-c", code], capture_output=True, text=True, env=dict(os.environ))
    outs.add(r.stdout.strip())
print("values from 4 fresh processes:", sorted(outs))
sys.exit(1 if len(outs) > 1 else 0)
