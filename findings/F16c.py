"""Witness of known finding F16c (C16): the JUnit handler indexes ctx.statistic.failures[label] for a FAILURE scenario whose failures were all first seen
under ANOTHER label (so no entry exists for this label): KeyError aborts the run. Exit 1 = reproduces, 0 = does not."""
import sys
from types import SimpleNamespace
from schemathesis.cli.commands.run.context import ExecutionContext
from schemathesis.cli.commands.run.handlers.junitxml import JunitXMLHandler
from schemathesis.core.failures import Failure
from schemathesis.engine import Status, events
from schemathesis.engine.recorder import CaseNode, CheckFailureInfo, CheckNode, Interaction, ScenarioRecorder
import io

def recorder(label):
    rec = ScenarioRecorder(label=label)
    case = SimpleNamespace(id="c1", operation=SimpleNamespace(label="GET /x"), meta=None)
    rec.cases["c1"] = CaseNode(value=case, parent_id=None, transition=None)
    rec.interactions["c1"] = Interaction(request=SimpleNamespace(), response=None)
    failure = Failure(operation="GET /x", title="Server error", message="500")
    rec.checks["c1"] = [CheckNode(name="not_a_server_error", status=Status.FAILURE, failure_info=CheckFailureInfo(code_sample="curl", failure=failure))]
    return rec

ctx = ExecutionContext()
handler = JunitXMLHandler(file_handle=io.StringIO())
try:
    for label in ("GET /x", "Stateful tests"):
        ev = events.ScenarioFinished(id=None, suite_id=None, phase=None, label=label, status=Status.FAILURE, recorder=recorder(label), elapsed_time=0.1, skip_reason=None, is_final=True)
        ctx.on_event(ev)
        handler.handle_event(ctx, ev)
except KeyError as exc:
    print("KeyError in JunitXMLHandler.handle_event:", exc)
    sys.exit(1)
sys.exit(0)
